#!/bin/bash
# re-run every kept seed against the check of the property it was written for (name prefix)
for d in /verif/seeded/*/; do n=$(basename $d); p=${n%%-*}; python3 /verif/tools/seed_run.py $n $p 2>&1 | grep -E "^$n" ; done
