#!/usr/bin/env python3
"""Rewrites the two measured tables of DESIGN.md section 0.2 from evidence files:
quick from evidence/<id>.json (must be tier quick), thorough from target/results/<id>-thorough-evidence.json."""
import json, os
ROOT = os.path.dirname(os.path.dirname(os.path.abspath(__file__)))
IDS = ["C%02d" % i for i in range(1, 18)]

def fmt(n):
    return "{:,}".format(n).replace(",", " ")

def row(pid, e):
    c = e["coverage"]
    per = c.get("per_exploration", [])
    ex = [p for p in per if "states" in p]
    en = [p for p in per if "evaluations" in p]
    parts = []
    if ex:
        closed = sum(1 for p in ex if p.get("exhaustive"))
        parts.append("%d explorations (%d closed): %s states / %s transitions" % (len(ex), closed, fmt(c.get("states", 0)), fmt(c.get("transitions", 0))))
    if en:
        parts.append("%d enumerations: %s cases" % (len(en), fmt(sum(p["evaluations"] for p in en))))
    return "| %s | %s | %s | %.0f s |" % (pid, e["level"], "; ".join(parts), e["wall_s"])

def table(get):
    rows = ["| id | level | explored | wall |", "|---|---|---|---|"]
    for pid in IDS:
        e = get(pid)
        if e:
            rows.append(row(pid, e))
    return "\n".join(rows) + "\n"

def load(path):
    try:
        return json.load(open(path))
    except OSError:
        return None

s = open(os.path.join(ROOT, "DESIGN.md")).read()
for tag, get in (("QUICKTABLE", lambda p: load(os.path.join(ROOT, "evidence", p + ".json"))),
                 ("THOROUGHTABLE", lambda p: load(os.path.join(ROOT, "target", "thorough-evidence", p + ".json")) or load(os.path.join(ROOT, "target", "results", p + "-thorough-evidence.json")))):
    a, b = "<!-- %s-BEGIN -->\n" % tag, "<!-- %s-END -->\n" % tag
    if a in s:
        t = table(get)
        s = s[:s.index(a) + len(a)] + t + s[s.index(b):]
open(os.path.join(ROOT, "DESIGN.md"), "w").write(s)
print("tables rewritten")
