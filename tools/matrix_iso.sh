#!/bin/bash
# matrix_iso.sh <slots> : regression of every kept seed against the check of the property it was written for,
# in isolated copies (tools/iso.sh), <slots> at a time. Prints one line per seed: name check exit.
slots=${1:-3}
i=0
for s in $(seq 1 $slots); do : > /tmp/matrix_slot$s.list; done
for d in /verif/seeded/*/; do n=$(basename $d); s=$(( i % slots + 1 )); echo $n >> /tmp/matrix_slot$s.list; i=$((i+1)); done
for s in $(seq 1 $slots); do
  ( for n in $(cat /tmp/matrix_slot$s.list); do p=${n%%-*}; ISO_LINES=2 /verif/tools/iso.sh m$s $n $p; done > /tmp/matrix_slot$s.log 2>&1 ) &
done
wait
grep -h "exit" /tmp/matrix_slot*.log | awk '{print $NF}' | sort | uniq -c
