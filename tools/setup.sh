#!/bin/bash
# Build the harness from files on disk only (offline). Generated declaration crates are (re)created first.
set -e
cd /verif/mc
export CARGO_NET_OFFLINE=true
for w in quick full c16; do python3 gen/gen.py $w progs-$w; done
cargo build --release --offline -p mcx
CARGO_TARGET_DIR=/verif/target/progs-quick cargo build --release --offline -p mcx-progs --features quick
# the eight feature-set builds used by C16 (so that its first quick run is not dominated by compilation)
cd /verif && ./check C16 --build-only
