#!/bin/bash
# validate (only) the round-2 seeds of /tmp/seed2/<ID>; remove the agent worktree afterwards
id=$1
for n in 1 2 3; do
  if [ -d /tmp/seed2/$id/SEED/$n ]; then python3 /verif/tools/seed_validate.py /tmp/seed2/$id/SEED/$n $id-r2-$n; fi
done
git -C /repo worktree remove --force /tmp/seed2/$id
