#!/bin/bash
# seed_do.sh <ID> <check...> : validate both seeds of agent worktree /tmp/seed/<ID>, run checks on them, remove the worktree
id=$1; shift
for n in 1 2; do
  if [ -d /tmp/seed/$id/SEED/$n ]; then
    python3 /verif/tools/seed_validate.py /tmp/seed/$id/SEED/$n $id-$n && python3 /verif/tools/seed_run.py $id-$n "$@"
  fi
done
git -C /repo worktree remove --force /tmp/seed/$id
