#!/usr/bin/env python3
"""Regenerates /verif/MANIFEST.json from the table below (kept in one place so it stays valid)."""
import json, os, subprocess

ROOT = os.path.dirname(os.path.dirname(os.path.abspath(__file__)))

def repo_commits():
    out = subprocess.run(["git", "-C", "/repo", "log", "--format=%H %s"], capture_output=True, text=True).stdout
    return [l.split()[0] for l in out.splitlines() if " verif-hooks:" in " " + l]

# id -> (level, technique, text, note, design_ref)
CHECKS = {
 "C01": ("model_checking", "explicit-state BFS over the real Cli to closure; dispatch oracle = reference tokeniser on the hooked line",
         "Breadth-first exploration of every reachable state of the real Cli (small command/history buffers, 12-key alphabet incl. 1-4 byte characters, editing, recall, completion) to fix-point; on every transition the handler-call count, the received name/arguments, the cleared line and the single fresh prompt are compared with the reference tokeniser applied to the line read through the hook just before Enter. Scale run: lines of up to 129 tokens / 257 bytes in a 300-byte buffer built by checked prefill, every cursor position of them a start of a depth-2 search. Endurance run: ~200 000 keys of repeated cycles, every step under the monitors. Two instances: every interleaving of <= 3-5 events (and, in C01 and C05, every sandwich A^i B^j A^k of five events) between two fresh Cli instances, each compared with its solo run.",
         "Closure is per (cb,hb) configuration listed in the evidence; alphabets are representative (one character per UTF-8 length). Reference tokeniser/classifier (refs.rs) trusted.", "4 C01"),
 "C05": ("model_checking", "explicit-state BFS over the real Cli to closure; lock-step ideal editor (Vec<char>, cursor)",
         "All reachable editor states for cb 0..=6 (thorough 0..=8) under insert of 1/2/3/4-byte characters, Backspace, Left, Right, plus configurations where recall/completion/submission replace the line; after every byte the hooked (text,cursor) must equal the ideal editor's. Scale run: lines of 7..258 bytes of 1/2/3/4-byte characters in a 258-byte buffer (thorough: 66..515), built by checked prefill, every cursor position a start of a depth-2 search. Endurance run: ~200 000 keys of repeated cycles, every step under the monitors. Two instances: every interleaving of <= 3-5 events (and, in C01 and C05, every sandwich A^i B^j A^k of five events) between two fresh Cli instances, each compared with its solo run.",
         "One representative character per encoded length; closure per buffer size; poison differential validates the canonical key.", "4 C05"),
 "C06": ("model_checking", "explicit-state BFS over the real Cli with a lock-step VT100 line emulator; API calls interleaved at key and byte granularity",
         "Every sink byte of every explored transition is fed to an ECMA-48 line emulator; after every API call (each process_byte, write, set_prompt) the emulated line must be prompt+line and the emulated cursor the editor cursor. Alphabet includes Cli::write, set_prompt (3 prompts), handler output, handler prompt change, one-byte-per-call sink, and a byte-granular run where API calls land inside escape sequences and multi-byte characters. Scale run: lines of up to 257 (513) characters in a 300 (515) byte buffer, every cursor position x every event (typing, recall, Tab, Enter, Cli::write, set_prompt), so cursor-movement counts of 10, 100, 256 occur. Endurance run: ~200 000 keys of repeated cycles, every step under the monitors. Two instances: every interleaving of <= 3-5 events (and, in C01 and C05, every sandwich A^i B^j A^k of five events) between two fresh Cli instances, each compared with its solo run.",
         "Infinite-width terminal, display width 1 per scalar; emulator (base.rs) trusted; closure per configuration.", "4 C06"),
 "C10": ("model_checking", "explicit-state BFS over the real Cli to closure; deque reference compared with the raw history buffer via refinement mapping",
         "Closure over submissions/Up/Down/editing for every cb 0..=3 x hb 0..=7 (+ larger thorough configs); in every transition the NUL-split raw history buffer must equal the reference deque (dedupe, oldest-first minimal eviction, no recording of empty/oversize lines) and Up/Down must show exactly the reference entry. Scale run: history buffers of 258 (66..515) bytes filled by checked prefill with ~100 short entries, entries of increasing length and four long entries (offsets beyond 255, evictions of several entries, re-submission of old and recent entries, lines of exactly the history size), then a depth-2 search from each. Endurance run: ~200 000 keys of repeated cycles, every step under the monitors. Two instances: every interleaving of <= 3-5 events (and, in C01 and C05, every sandwich A^i B^j A^k of five events) between two fresh Cli instances, each compared with its solo run.",
         "Forks allowed where the statement is silent: Down while not navigating, navigation position after an unrecorded Enter.", "4 C10"),
 "C15": ("model_checking", "explicit-state BFS over the real Cli; write/flush event order monitor on every call",
         "The recording sink logs write and flush calls; after every successful API call of every explored transition (the C06 sessions - typing, recall, completion, handler output, Cli::write, set_prompt, one-byte sink, byte-granular - plus sessions over a derived enum and a command group that print help listings, command help, parse errors and handler errors) no written byte may follow the last flush. A second engine (mcx-progs) applies the same rule to every line that the derived-parser and help enumerations type into a Cli (values, every kind of parse error, help listings, command and nested help).",
         "Observed at call return only.", "4 C15"),
 "C02": ("model_checking", "explicit-state closure of the real Utf8Accum / InputGenerator over all byte values in lock-step with a strict Table 3-7 decoder; raw-byte Cli sessions",
         "(a) every reachable state of the real Utf8Accum x all 256 byte values, (b) every reachable state of the real InputGenerator x boundary bytes (thorough: all 256), both compared with a strict Unicode Table 3-7 decoder: whatever is emitted must be exactly one well-formed scalar and every contiguous well-formed sequence must be emitted; (c) raw-byte sessions through the whole Cli where every string handed to the handler, the edited line, history contents and echoed bytes must be valid UTF-8.",
         "Policy for resynchronisation after an ill-formed byte is left open (lenient accepts are counted, not flagged).", "4 C02"),
 "C03": ("model_checking", "explicit-state BFS over the real Cli under debug assertions, overflow checks and std unsafe-precondition checks; closure for small buffers, depth-bounded from pre-filled states for buffers up to 64",
         "Every transition runs under catch_unwind in a child process built with debug-assertions and overflow-checks (std's unsafe-precondition checks abort on a violated get_unchecked / copy_nonoverlapping / unwrap_unchecked / from_u32_unchecked precondition); a panic or abort anywhere is the violation, with the path recovered by a journal rerun. Closure for all listed small (cb,hb) incl. 0 and 1 with a wide alphabet (API calls interleaved), raw-byte sessions, decoder closure over all 256 bytes, depth-bounded search from pre-filled states for buffers up to 64 bytes, a shallow search over the whole grid of buffer-size pairs (thorough: all 65x65), a supplementary run under miri (thorough); representation invariants checked in every state; poison differential on dead buffer bytes.",
         "Large buffers are only depth-bounded (evidence lists which explorations are exhaustive). from_utf8_unchecked has no std precondition check: validity is checked by the harness (C02).", "4 C03"),
 "C04": ("model_checking", "explicit-state closure of the real InputGenerator over ~700 key units in lock-step with the per-unit meaning and the greedy CR/LF pairing automaton; exhaustive two-instance interleavings (bounded depth) against the solo runs",
         "The real InputGenerator is driven by complete key units (every printable ASCII, boundary scalars of each length, CR, LF, BS, TAB, DEL, every other C0 byte, ESC [ params final for every final byte 0x40..0x7E and several parameter strings) from every reachable decoder state to closure, so unit streams of every length are covered; outputs must equal the unit's meaning and terminators follow the 3-state greedy pairing reference. 'Depends only on the byte sequence': every interleaving of <= 4 (5) bytes between two fresh decoders and of <= 3-4 (4-5) events between two fresh Cli instances is executed sequentially and each instance's answers and final state are compared with the same instance driven alone.",
         "DEL is left open; bytes inside a CSI other than parameter/intermediate bytes are outside the alphabet.", "4 C04"),
 "C07": ("exploration", "complete enumeration of all lines up to a length bound over a 6-symbol alphabet (plus a 7-symbol alphabet of Latin-1 blanks inside multi-byte characters and a 9-symbol alphabet of ASCII specials: tab, single quote, =, #) through the real Tokens::new and through a Cli, against a char-level reference tokeniser; complete enumeration of lists for the round trip",
         "Every string of <= 9 symbols (thorough 11) over {a, space, quote, backslash, dash, é} (count checked against the closed form) is tokenised by the real Tokens::new and must be one of the token lists the statement admits; every line <= 6 symbols is also typed into a Cli and observed in the handler; every list of <= 3 strings of <= 2 symbols and <= 2 strings of <= 3 symbols is rendered quoted and must tokenise back to itself; every string of <= 4 (6) symbols at every offset 0..=48 (80) of 171 long contexts x 5 continuations, and the round trip of a^i.special.a^j for all i+j <= 40 (72).",
         "Bounded length; forks only for backslash followed by a character other than quote/backslash inside quotes.", "4 C07"),
 "C08": ("exploration", "complete enumeration of token lists (bounded) through Tokens::from_raw + ArgList::args against a reference classifier and the re-join law",
         "Every list of <= 3 tokens of <= 3 symbols over {-, a, é, 中, 𝄞, space} (17.4 M lists) plus lists over the first/last scalar of every encoded length, through the real ArgsIter; item-by-item equality with the reference classifier and an independently coded re-join law; short lists are also typed quoted after a command name into a Cli; lists over {-, a, é} with tokens of <= 5 (6) symbols, and 252 long tokens (0-5 dashes, 33-character names and mixed-width clusters) after 0-9 other tokens, with and without `--`, followed by each other; lists over the ASCII classes {-, a, 1, =, 0, Z, .} and every single token of <= 3 (4) printable ASCII characters.",
         "Bounded list and token length.", "4 C08"),
 "C13": ("model_checking", "closure of the real Writer's state under 510 output calls, each transition executed end to end in a handler and in Cli::write from 6 editor states; plus BFS sessions with every output call at every editing state",
         "(i) BFS over the real Writer's (dirty,last_bytes) state x reference (non-empty, ends-in-LF) to closure over write_str / writeln_str / uwrite! / fmt::Write::write_str / character-wise write! and uwrite! with every text of <= 3 symbols over {a, é, LF, CR}; every transition is executed inside a handler on Enter and inside Cli::write in a real Cli and compared byte for byte with conv(script)+(CRLF iff needed)+prompt; (ii) session BFS where every single output call (and some two-call scripts) is made at every reachable editing state, with the terminal emulator checking the line and cursor are redisplayed; (iii) the same on lines of up to 257 characters at every cursor position, with a four-call script of long fragments.",
         "Output alphabet {a, é, LF, CR}; texts <= 3 (thorough 4) symbols.", "4 C13"),
 "C14": ("fault_enumeration", "explicit-state BFS over the real Cli where every sink call position (write and flush) of every transition is failed once / until return; post-fault states are explored to closure",
         "For every reachable state of a session closure (plain derived enum and a CommandGroup of two enums; typing, editing, recall, completion, Enter with handler output / parse error / prompt change, help via -h and help, Cli::write, set_prompt) and every event, the fault-free execution is counted and then re-executed once per sink call position x {fails once, fails until the API call returns}: the call must return Err, must not panic, the decoder state must equal the fault-free one and the line must be as before / as the key leaves it / empty; post-fault states are ordinary BFS states, so later dispatch is checked by the C01 monitor from every one of them (any number of sequential faults).",
         "Screen, prompt and history after a fault are left open. One fault per API call.", "4 C14"),
 "C17": ("exploration", "complete enumeration of the scalar-value domain (1 112 031 values x 4 neighbour widths) through the real helpers and through Cli sessions, against std char/str",
         "All 1 112 031 scalars >= U+0020 except U+007F: encode_utf8, char_pop_front, char_count, char_byte_index, common_prefix_len (against code-space neighbours sharing lead bytes) and Utf8Accum vs std; and one Cli session per scalar and neighbour width: type, echo, move over, delete, retype, submit as command name and quoted argument, recall from history, use as short option and see it in the derived parser's error line.",
         "Fixed session shape per scalar.", "4 C17"),
 "C09": ("exploration", "bounded enumeration of derive declarations compiled with the repository's macros x every token line up to a bound over each command's own token alphabet, against a declaration interpreter",
         "gen.py enumerates a bounded grammar of #[derive(Command)] / #[derive(CommandGroup)] declarations (every single-field shape: positional/option/flag x 6 types x 5 optionality forms x 8 naming forms x value_name; ordered pairs of a 10-shape subset; positional triples; nesting to depth 3; groups with hidden members and a RawCommand catch-all); cargo compiles them with /repo's macros; for every command every line of <= 3 (thorough 4) tokens over its own token alphabet is run through FromRaw::parse (structured ParseError compared exactly) and typed into a real Cli (handler value by Debug rendering, or exactly one `error:` line naming the first offending item) and compared with a reference interpreter of the declaration. Value conversion: all 17 supported field types x every string of <= 4 (5) symbols over a numeric-looking alphabet plus boundary spellings of every width through FromArgument::from_arg against the type's FromStr.",
         "Bounded declaration grammar; lines whose meaning the statement leaves open (option without value, repeated option, tokens after -- handed to a sub-command) are executed but not compared.", "4 C09"),
 "C11": ("exploration", "bounded enumeration of command-name sets as derived enums (and groups) x every line x cursor position x buffer size, against the longest-common-continuation rule",
         "Every ordered list of <= 3 names from a 13-name pool (shared prefixes, one name a prefix of another, multi-byte names sharing a lead byte, `help`) is one derived enum (quick: all lists of <= 2 plus 54 triples; thorough: all 1885), plus groups of two such enums visible/hidden in both orders; for each, every line of <= 3 (4) symbols over {a,b,é,h,space}, every cursor position and every buffer size from the line length to +6 is built in a real Cli and Tab pressed; the result must be admissible by rule A.4; the derived Autocomplete is also called directly for every word and buffer length.",
         "Where the continuation does not fit, any scalar-boundary prefix is accepted; a word followed only by blanks may be left alone.", "4 C11"),
 "C12": ("exploration", "the C09 programs x all help-shaped lines (listing, every command and nested path in three spellings, wrong step, hidden, help option at every position), structural oracle",
         "For every program of the C09 set: `help` must list every command of every visible group exactly once with its summary and no hidden one; help for every command and nested sub-command path (as `help p1 .. pn`, `p1 .. pn -h`, `.. --help`, with the parents' options and values in front of the sub-command name) must contain each description paragraph, a Usage row with the full path, every positional and option with names, value name and documentation, and every sub-command; an unknown step or hidden command prints only `error: unknown command`; and -h / --help / a cluster containing h inserted at every position of every argument line never reaches the handler (after -- it is an ordinary argument).",
         "Help text is checked structurally, not against pinned text; `help -h` and `help --` are left open.", "4 C12"),
 "C16": ("model_checking", "the C01/C05/C06 explorations, the derived-parser enumeration and (in builds with autocomplete) the completion enumeration repeated under all 8 feature-set builds with the reference configured per build, plus a cross-build digest of the feature-independent labelled state graph",
         "The harness is built 8 times (--no-default-features --features macros,verif-hooks[,history][,autocomplete][,help]); every build runs the C01, C05 and C06 quick explorations with the reference configured for that build (history off: Up/Down change neither line nor screen; autocomplete off: Tab likewise; help off: `help`/--help lines are dispatched like any command, incl. a derived command set with its own `help`), and the digest of the labelled state graph over the alphabet that touches no optional facility must be identical in all builds. Precondition: the library builds under all 16 combinations with/without macros.",
         "Same bounds as C01/C05/C06 quick.", "4 C16"),
}

NOT_YET = {
 "C02": "check under construction in this round (decoder closure + raw-byte sessions); not claimed until it runs",
 "C03": "check under construction in this round; not claimed until it runs",
 "C04": "check under construction in this round; not claimed until it runs",
 "C07": "check under construction in this round; not claimed until it runs",
 "C08": "check under construction in this round; not claimed until it runs",
 "C09": "check under construction in this round; not claimed until it runs",
 "C11": "check under construction in this round; not claimed until it runs",
 "C12": "check under construction in this round; not claimed until it runs",
 "C13": "check under construction in this round; not claimed until it runs",
 "C14": "check under construction in this round; not claimed until it runs",
 "C16": "check under construction in this round; not claimed until it runs",
 "C17": "check under construction in this round; not claimed until it runs",
}

def main():
    checks = []
    for pid in sorted(CHECKS):
        level, tech, text, note, ref = CHECKS[pid]
        checks.append({
            "property_id": pid,
            "quick_cmd": "./check %s --tier quick" % pid,
            "thorough_cmd": "./check %s --tier thorough" % pid,
            "evidence_file": "/verif/evidence/%s.json" % pid,
            "replay_cmd_template": "./check %s --replay {path}" % pid,
            "engine": "mcx-progs" if pid in ("C09", "C11", "C12") else "mcx",
            "level_claimed": {"category": level, "text": text, "design_ref": "DESIGN.md section " + ref},
            "level_note": note,
            "technique": tech,
        })
    m = {
        "version": 1,
        "setup_cmd": "cd /verif && ./tools/setup.sh",
        "hooks": {
            "guard": "cargo feature `verif-hooks` of the embedded-cli crate (not in default); six commits: accessors/Clone/re-exports, derived Hash over Editor and History fields, derived Clone for Cli, derived Hash over the decoder structs, accessor casts that survive narrowed field types, derived Hash over Cli itself",
            "enable": "harness crates depend on /repo/embedded-cli by path with features = [\"verif-hooks\", ...]",
            "baseline_off_cmd": "cd /repo && cargo test --workspace --no-fail-fast --offline",
            "source_commits": repo_commits(),
            "add_only": True,
        },
        "engines": [
            {"name": "mcx", "path": "/verif/mc/mcx", "serves_properties": sorted(p for p in CHECKS if p not in ("C09", "C11", "C12")),
             "kind_free_text": "explicit-state BFS / complete bounded enumeration that executes the real embedded-cli code on every transition; reference models in refs.rs"},
            {"name": "mcx-progs", "path": "/verif/mc/mcx-progs", "serves_properties": ["C09", "C11", "C12", "C15", "C16"],
             "kind_free_text": "programs x inputs: declarations enumerated by mc/gen/gen.py, compiled with the repository's derive macros, every bounded input line executed and compared with a declaration interpreter (interp.rs)"},
        ],
        "checks": checks,
        "not_applicable": [{"property_id": k, "reason": v} for k, v in sorted(NOT_YET.items()) if k not in CHECKS],
        "notes": "All checks: ./check <ID> [--tier quick|thorough] [--replay FILE]; exit 0 ok / 1 violation / 2 machinery. See DESIGN.md.",
    }
    with open(os.path.join(ROOT, "MANIFEST.json"), "w") as f:
        json.dump(m, f, indent=1)

if __name__ == "__main__":
    main()
