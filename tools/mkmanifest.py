#!/usr/bin/env python3
"""Regenerates /verif/MANIFEST.json from the table below (kept in one place so it stays valid)."""
import json, os, subprocess

ROOT = os.path.dirname(os.path.dirname(os.path.abspath(__file__)))

def repo_commits():
    out = subprocess.run(["git", "-C", "/repo", "log", "--format=%H %s"], capture_output=True, text=True).stdout
    return [l.split()[0] for l in out.splitlines() if " verif-hooks:" in " " + l]

# id -> (level, technique, text, note, design_ref)
CHECKS = {
 "C01": ("model_checking", "explicit-state BFS over the real Cli to closure; dispatch oracle = reference tokeniser on the hooked line",
         "Breadth-first exploration of every reachable state of the real Cli (small command/history buffers, 12-key alphabet incl. 1-4 byte characters, editing, recall, completion) to fix-point; on every transition the handler-call count, the received name/arguments, the cleared line and the single fresh prompt are compared with the reference tokeniser applied to the line read through the hook just before Enter.",
         "Closure is per (cb,hb) configuration listed in the evidence; alphabets are representative (one character per UTF-8 length). Reference tokeniser/classifier (refs.rs) trusted.", "4 C01"),
 "C05": ("model_checking", "explicit-state BFS over the real Cli to closure; lock-step ideal editor (Vec<char>, cursor)",
         "All reachable editor states for cb 0..=6 (thorough 0..=8) under insert of 1/2/3/4-byte characters, Backspace, Left, Right, plus configurations where recall/completion/submission replace the line; after every byte the hooked (text,cursor) must equal the ideal editor's.",
         "One representative character per encoded length; closure per buffer size; poison differential validates the canonical key.", "4 C05"),
 "C06": ("model_checking", "explicit-state BFS over the real Cli with a lock-step VT100 line emulator; API calls interleaved at key and byte granularity",
         "Every sink byte of every explored transition is fed to an ECMA-48 line emulator; after every API call (each process_byte, write, set_prompt) the emulated line must be prompt+line and the emulated cursor the editor cursor. Alphabet includes Cli::write, set_prompt (3 prompts), handler output, handler prompt change, one-byte-per-call sink, and a byte-granular run where API calls land inside escape sequences and multi-byte characters.",
         "Infinite-width terminal, display width 1 per scalar; emulator (base.rs) trusted; closure per configuration.", "4 C06"),
 "C10": ("model_checking", "explicit-state BFS over the real Cli to closure; deque reference compared with the raw history buffer via refinement mapping",
         "Closure over submissions/Up/Down/editing for every cb 0..=3 x hb 0..=7 (+ larger thorough configs); in every transition the NUL-split raw history buffer must equal the reference deque (dedupe, oldest-first minimal eviction, no recording of empty/oversize lines) and Up/Down must show exactly the reference entry.",
         "Forks allowed where the statement is silent: Down while not navigating, navigation position after an unrecorded Enter.", "4 C10"),
 "C15": ("model_checking", "explicit-state BFS over the real Cli; write/flush event order monitor on every call",
         "The recording sink logs write and flush calls; after every successful API call of every explored transition (same sessions as C06: typing, recall, completion, handler output, parse-error output, help, Cli::write, set_prompt, one-byte sink) no written byte may follow the last flush.",
         "Observed at call return only.", "4 C15"),
}

NOT_YET = {
 "C02": "check under construction in this round (decoder closure + raw-byte sessions); not claimed until it runs",
 "C03": "check under construction in this round; not claimed until it runs",
 "C04": "check under construction in this round; not claimed until it runs",
 "C07": "check under construction in this round; not claimed until it runs",
 "C08": "check under construction in this round; not claimed until it runs",
 "C09": "check under construction in this round; not claimed until it runs",
 "C11": "check under construction in this round; not claimed until it runs",
 "C12": "check under construction in this round; not claimed until it runs",
 "C13": "check under construction in this round; not claimed until it runs",
 "C14": "check under construction in this round; not claimed until it runs",
 "C16": "check under construction in this round; not claimed until it runs",
 "C17": "check under construction in this round; not claimed until it runs",
}

def main():
    checks = []
    for pid in sorted(CHECKS):
        level, tech, text, note, ref = CHECKS[pid]
        checks.append({
            "property_id": pid,
            "quick_cmd": "./check %s --tier quick" % pid,
            "thorough_cmd": "./check %s --tier thorough" % pid,
            "evidence_file": "/verif/evidence/%s.json" % pid,
            "replay_cmd_template": "./check %s --replay {path}" % pid,
            "engine": "mcx",
            "level_claimed": {"category": level, "text": text, "design_ref": "DESIGN.md section " + ref},
            "level_note": note,
            "technique": tech,
        })
    m = {
        "version": 1,
        "setup_cmd": "cd /verif/mc && CARGO_NET_OFFLINE=true cargo build --release --offline --workspace",
        "hooks": {
            "guard": "cargo feature `verif-hooks` of the embedded-cli crate (not in default)",
            "enable": "harness crates depend on /repo/embedded-cli by path with features = [\"verif-hooks\", ...]",
            "baseline_off_cmd": "cd /repo && cargo test --workspace --no-fail-fast --offline",
            "source_commits": repo_commits(),
            "add_only": True,
        },
        "engines": [
            {"name": "mcx", "path": "/verif/mc/mcx", "serves_properties": sorted(CHECKS),
             "kind_free_text": "explicit-state BFS / complete bounded enumeration that executes the real embedded-cli code on every transition; reference models in refs.rs"},
        ],
        "checks": checks,
        "not_applicable": [{"property_id": k, "reason": v} for k, v in sorted(NOT_YET.items()) if k not in CHECKS],
        "notes": "All checks: ./check <ID> [--tier quick|thorough] [--replay FILE]; exit 0 ok / 1 violation / 2 machinery. See DESIGN.md.",
    }
    with open(os.path.join(ROOT, "MANIFEST.json"), "w") as f:
        json.dump(m, f, indent=1)

if __name__ == "__main__":
    main()
