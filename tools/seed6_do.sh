#!/bin/bash
# seed6_do.sh <ID> <check...> : validate the seeds of agent worktree /tmp/seed6/<ID>, run checks on them, remove the worktree
id=$1; shift
for n in 1 2 3; do
  if [ -d /tmp/seed6/$id/SEED/$n ]; then
    python3 /verif/tools/seed_validate.py /tmp/seed6/$id/SEED/$n $id-r6-$n && python3 /verif/tools/seed_run.py $id-r6-$n "$@"
  fi
done
if [ -z "$KEEP_WT" ]; then git -C /repo worktree remove --force /tmp/seed6/$id; fi
