#!/bin/bash
# revert_check.sh "<commit> [<commit>...]" <check>... : revert fix commits in /repo's working tree (no commit), run checks, restore
commits=$1; shift
cd /repo && test -z "$(git status --porcelain)" || { echo "repo not clean"; exit 2; }
if ! git revert --no-commit $commits >/dev/null 2>&1; then echo "REVERT-CONFLICT $commits"; git revert --abort 2>/dev/null; git reset -q --hard HEAD; exit 3; fi
for c in "$@"; do
  out=$(cd /verif && ./check $c 2>&1); rc=$?
  echo "revert [$commits] check $c exit=$rc $(echo "$out" | grep -c '^VIOLATION') VIOLATION lines"
  echo "$out" | grep -E "^  [^ ]" | head -2 | cut -c1-230
done
cd /repo && git reset -q --hard HEAD
