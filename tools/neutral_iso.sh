#!/bin/bash
# neutral_iso.sh <slots> : run every neutral change against all 17 quick checks in isolated copies, <slots> at a time
slots=${1:-4}
names=$(ls /verif/neutral | grep -E '^N')
i=0
for s in $(seq 1 $slots); do : > /tmp/neutral_slot$s.list; done
for n in $names; do s=$(( i % slots + 1 )); echo $n >> /tmp/neutral_slot$s.list; i=$((i+1)); done
for s in $(seq 1 $slots); do
  ( for n in $(cat /tmp/neutral_slot$s.list); do ISO_LINES=4 /verif/tools/iso.sh n$s /verif/neutral/$n/patch.diff C01 C02 C03 C04 C05 C06 C07 C08 C09 C10 C11 C12 C13 C14 C15 C16 C17; done > /tmp/neutral_slot$s.log 2>&1 ) &
done
wait
grep -h "exit" /tmp/neutral_slot*.log | grep -v "exit 0" || echo "ALL NEUTRAL CHANGES QUIET"
