#!/bin/bash
# iso.sh <slot> <seed-name|-> <check...>
# Development aid: run checks against a seeded change in an ISOLATED copy (/tmp/iso/<slot>/{verif,repo}) so that
# /repo and /verif stay untouched and several seeds can run in parallel while the harness is being edited.
# The copy of /verif is refreshed from the working tree on every call (target/ is kept for incremental builds).
# Results recorded in seeded/*/meta.json still come from tools/seed_run.py (applied to /repo itself).
set +e
slot=$1; seed=$2; shift 2
base=/tmp/iso/$slot
mkdir -p $base
if [ ! -d $base/repo ]; then git -C /repo worktree add -q --detach $base/repo HEAD; fi
git -C $base/repo checkout -q --detach $(git -C /repo rev-parse HEAD)
git -C $base/repo checkout -q -- .
git -C $base/repo clean -fdq -- embedded-cli/src embedded-cli-macros/src embedded-cli/tests
git -C $base/repo clean -fdq -- embedded-cli/src embedded-cli-macros/src embedded-cli/tests
rsync -a --delete --exclude target --exclude .git --exclude replays --exclude evidence /verif/ $base/verif/
mkdir -p $base/verif/evidence
sed -i "s#/repo/#$base/repo/#g" $base/verif/mc/mcx/Cargo.toml $base/verif/mc/mcx-progs/Cargo.toml $base/verif/mc/gen/gen.py
sed -i "s#\"/repo\"#\"$base/repo\"#g" $base/verif/check
if [ "$seed" != "-" ]; then
  p=/verif/seeded/$seed/patch.diff
  [ -f "$p" ] || p=$seed
  git -C $base/repo apply $p || git -C $base/repo apply -C1 $p
fi
tag=$(basename $(dirname $seed) 2>/dev/null); [ "$tag" = "." ] && tag=$seed
for c in "$@"; do
  (cd $base/verif && ./check $c > $base/last.out 2>&1; echo $? > $base/last.rc)
  grep -vE "^WARNING conda" $base/last.out | grep -E "^(VIOLATION|KNOWN|MACHINERY|NOTE|  [^ ]|C[0-9][0-9] )" | sed "s/^/[$tag $c] /" | cut -c1-400 | head -${ISO_LINES:-12}
  echo "[$tag $c] exit $(cat $base/last.rc)"
done
git -C $base/repo checkout -q -- .
git -C $base/repo clean -fdq -- embedded-cli/src embedded-cli-macros/src embedded-cli/tests
