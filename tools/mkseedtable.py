#!/usr/bin/env python3
"""Rewrites the seeded-changes table in DESIGN.md (between the SEEDTABLE markers) from seeded/*/meta.json."""
import glob, json, os, re
rows = []
for d in sorted(glob.glob('/verif/seeded/*/meta.json')):
    m = json.load(open(d)); n = os.path.basename(os.path.dirname(d))
    def cl(x, k):
        x = (x or '').replace('\n', ' ').replace('|', '/')
        return x if len(x) <= k else x[:k - 3] + '...'
    det = ', '.join(m.get('detected_by', [])) or '-'
    if m.get('verdict_note'):
        det += ' (see note)'
    rows.append('| %s | %s | %s | %s |' % (n, cl(m.get('summary'), 150), cl(m.get('needs_to_manifest'), 130), det))
table = '| seed | change | needs | reported by (quick tier) |\n|---|---|---|---|\n' + '\n'.join(rows) + '\n'
p = '/verif/DESIGN.md'
s = open(p).read()
a, b = '<!-- SEEDTABLE-BEGIN -->\n', '<!-- SEEDTABLE-END -->\n'
if a in s:
    s = s[:s.index(a) + len(a)] + table + s[s.index(b):]
else:
    i = s.index('| seed | change | needs | reported by |')
    j = s.index('\n\n', i) + 1
    s = s[:i] + a + table + b + s[j:]
open(p, 'w').write(s)
print(len(rows), 'rows')
