#!/usr/bin/env python3
"""seed_run.py <name> <check id>...  -- apply /verif/seeded/<name>/patch.diff to /repo, run the quick checks, undo.
Records which checks raised a VIOLATION in seeded/<name>/meta.json (key detected_by)."""
import json, os, subprocess, sys
name = sys.argv[1]; checks = sys.argv[2:]
d = os.path.join("/verif/seeded", name)
st = subprocess.run("git -C /repo status --porcelain", shell=True, capture_output=True, text=True).stdout.strip()
assert st == "", "repo not clean: " + st
rc = subprocess.run("git -C /repo apply " + os.path.join(d, "patch.diff"), shell=True, capture_output=True).returncode
if rc != 0:
    rc = subprocess.run("git -C /repo apply -C1 " + os.path.join(d, "patch.diff"), shell=True).returncode
assert rc == 0
res = {}
try:
    for c in checks:
        p = subprocess.run(["/verif/check", c], cwd="/verif", capture_output=True, text=True)
        v = [l for l in p.stdout.splitlines() if l.startswith("VIOLATION")]
        first = [l for l in p.stdout.splitlines() if l.startswith("  ") and ": " in l][:2]
        res[c] = {"exit": p.returncode, "violation_lines": len(v), "first": first}
        print(name, c, "exit", p.returncode, "VIOLATION lines", len(v))
        for f in first: print("   ", f[:260])
finally:
    subprocess.run("git -C /repo checkout -- . && git -C /repo clean -fdq -- embedded-cli/src embedded-cli-macros/src", shell=True)
meta = json.load(open(os.path.join(d, "meta.json")))
meta.setdefault("check_results", {}).update(res)
meta["detected_by"] = sorted(c for c, r in meta["check_results"].items() if r["exit"] == 1)
json.dump(meta, open(os.path.join(d, "meta.json"), "w"), indent=1, ensure_ascii=False)
