#!/usr/bin/env python3
"""neutral_run.py [name...] [--checks C01,C02,...]
Applies each property-PRESERVING change under /verif/neutral/<name>/patch.diff to /repo, runs the quick
checks and expects every one to exit 0 (no alarm on code where the properties hold); undoes the change.
Results are written to neutral/<name>/result.json."""
import json, os, subprocess, sys
ALL = ["C%02d" % i for i in range(1, 18)]
args = sys.argv[1:]
checks = ALL
if "--checks" in args:
    i = args.index("--checks"); checks = args[i + 1].split(","); del args[i:i + 2]
names = args or sorted(n for n in os.listdir("/verif/neutral") if n.startswith("N"))
bad = 0
for n in names:
    d = os.path.join("/verif/neutral", n)
    if not os.path.isfile(os.path.join(d, "patch.diff")):
        continue
    st = subprocess.run("git -C /repo status --porcelain", shell=True, capture_output=True, text=True).stdout.strip()
    assert st == "", "repo not clean: " + st
    if subprocess.run("git -C /repo apply " + os.path.join(d, "patch.diff"), shell=True, capture_output=True).returncode != 0:
        # hook-only lines were added to the tree after the patch was written: allow reduced context
        rc = subprocess.run("git -C /repo apply -C1 " + os.path.join(d, "patch.diff"), shell=True).returncode
        if rc != 0:
            print(n, "PATCH DOES NOT APPLY (skipped)")
            continue
    res = {}
    try:
        for c in checks:
            p = subprocess.run(["/verif/check", c], cwd="/verif", capture_output=True, text=True)
            res[c] = {"exit": p.returncode, "tail": p.stdout.splitlines()[-6:] if p.returncode else []}
            if p.returncode != 0:
                bad += 1
                print("ALARM %s %s exit %d" % (n, c, p.returncode))
                for l in [x for x in p.stdout.splitlines() if x.startswith("  ")][:3]:
                    print("    " + l[:300])
    finally:
        subprocess.run("git -C /repo checkout -- . && git -C /repo clean -fdq -- embedded-cli/src embedded-cli-macros/src", shell=True)
    json.dump(res, open(os.path.join(d, "result.json"), "w"), indent=1)
    print(n, "quiet" if all(r["exit"] == 0 for r in res.values()) else "ALARMS", {c: r["exit"] for c, r in res.items() if r["exit"]})
sys.exit(1 if bad else 0)
