#!/usr/bin/env python3
"""seed_validate.py <agent SEED dir> <name>  -- confirm a seeded change independently, then keep it.

In a scratch worktree of /repo (outside /repo and /verif): apply patch -> full suite must pass and the
demonstration must fail; without the patch the demonstration must pass. On success copy to
/verif/seeded/<name>/ (patch.diff, demo.rs, meta.json)."""
import json, os, shutil, subprocess, sys

def sh(cmd, cwd):
    p = subprocess.run(cmd, cwd=cwd, shell=True, capture_output=True, text=True)
    return p.returncode, p.stdout + p.stderr

def main():
    src, name = sys.argv[1], sys.argv[2]
    wt = "/tmp/sv-" + name
    if os.path.exists(wt):
        sh("git -C /repo worktree remove --force " + wt, "/")
    rc, out = sh("git -C /repo worktree add -q --detach %s HEAD" % wt, "/")
    assert rc == 0, out
    try:
        meta = json.load(open(os.path.join(src, "meta.json")))
        demo_path = meta.get("demo_install_path", "embedded-cli/tests/seed_demo.rs")
        demo_cmd = meta.get("demo_cmd", "cargo test --offline -p embedded-cli --test seed_demo")
        if "--offline" not in demo_cmd:
            demo_cmd = demo_cmd.replace("cargo test", "cargo test --offline")
        shutil.copy(os.path.join(src, "demo.rs"), os.path.join(wt, demo_path))
        rc0, out0 = sh(demo_cmd, wt)
        rc, out = sh("git apply " + os.path.abspath(os.path.join(src, "patch.diff")), wt)
        if rc != 0:
            # the tree has moved on by hook-only lines since the patch was written: allow reduced context
            rc, out = sh("git apply -C1 " + os.path.abspath(os.path.join(src, "patch.diff")), wt)
        if rc != 0:
            print("PATCH DOES NOT APPLY", out); return 1
        os.remove(os.path.join(wt, demo_path))
        rc1, out1 = sh("cargo test --workspace --no-fail-fast --offline 2>&1 | grep -E '^test result' ", wt)
        passed = sum(int(l.split()[3]) for l in out1.splitlines() if l.startswith("test result"))
        failed = sum(int(l.split()[5]) for l in out1.splitlines() if l.startswith("test result"))
        shutil.copy(os.path.join(src, "demo.rs"), os.path.join(wt, demo_path))
        rc2, out2 = sh(demo_cmd, wt)
        ok = rc0 == 0 and passed == 172 and failed == 0 and rc2 != 0
        print("%s: demo without patch rc=%d; suite with patch %d passed %d failed; demo with patch rc=%d => %s" % (name, rc0, passed, failed, rc2, "CONFIRMED" if ok else "REJECTED"))
        if not ok:
            if rc0 != 0: print(out0[-1500:])
            return 1
        dst = os.path.join("/verif/seeded", name)
        os.makedirs(dst, exist_ok=True)
        shutil.copy(os.path.join(src, "patch.diff"), dst)
        shutil.copy(os.path.join(src, "demo.rs"), dst)
        meta["confirmed"] = {"suite_with_patch": "%d passed, %d failed" % (passed, failed), "demo_without_patch": "pass", "demo_with_patch": "fail",
                             "ran": ["git apply patch.diff", "cargo test --workspace --no-fail-fast --offline", demo_cmd]}
        meta["base_commit"] = subprocess.run("git -C /repo rev-parse --short HEAD", shell=True, capture_output=True, text=True).stdout.strip()
        json.dump(meta, open(os.path.join(dst, "meta.json"), "w"), indent=1, ensure_ascii=False)
        return 0
    finally:
        sh("git -C /repo worktree remove --force " + wt, "/")

sys.exit(main())
