#!/bin/bash
id=$1
for n in 1 2 3; do
  if [ -d /tmp/seed5/$id/SEED/$n ]; then python3 /verif/tools/seed_validate.py /tmp/seed5/$id/SEED/$n $id-r5-$n; fi
done
git -C /repo worktree remove --force /tmp/seed5/$id
