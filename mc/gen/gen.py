#!/usr/bin/env python3
"""Deterministic enumerator of #[derive(Command)] / #[derive(CommandGroup)] declarations (DESIGN 4 C09/C11/C12).

  gen.py <set> <out crate dir>      set in {quick, full, c16}

Writes <dir>/Cargo.toml, <dir>/src/lib.rs (the declarations as Rust source, compiled with the
repository's macros, plus glue functions and a registry) and <dir>/decls.json (the same declarations
as data for the reference interpreter). No randomness; output depends only on <set>.
"""
import itertools
import json
import os
import sys

TYPES = {
    # ty: (valid tokens, invalid token or None, default_value literal, default_value_t expr, its Debug, Default::default() Debug)
    "u8": (["7", "255"], "300", "5", "9", "9", "0"),
    "i16": (["12"], "x1", "-4", "-7", "-7", "0"),
    "f32": (["1.5"], "zz", "2.5", "0.25", "0.25", "0.0"),
    "char": (["x", "é"], "xy", "q", "'z'", "'z'", "'\\0'"),
    "bool": (["true"], "yes", "true", "true", "true", "false"),
    "&str": (["v", ""], None, "dflt", '"dx"', '"dx"', '""'),
    # rarely used widths (boundary values of the type as valid / invalid tokens)
    "i8": (["127", "+5"], "128", "-128", "-3", "-3", "0"),
    "u128": (["340282366920938463463374607431768211455"], "340282366920938463463374607431768211456", "18446744073709551616", "7", "7", "0"),
    "f64": (["1e3", "inf"], "1e", "0.1", "2.5e-3", "0.0025", "0.0"),
    "usize": (["0"], "-1", "42", "usize::MAX", "18446744073709551615", "0"),
    "i64": (["9223372036854775807"], "9223372036854775808", "-1", "i64::MIN", "-9223372036854775808", "0"),
}
OPTS = ["required", "option", "default_value", "default_value_t_expr", "default_value_t"]
NAMINGS = ["short", "long", "both", "short_custom", "long_custom", "both_custom", "short_gen_long_custom", "short_custom_long_gen"]


def kebab(ident):
    out = ""
    for i, c in enumerate(ident):
        if c.isupper() and i > 0:
            out += "-"
        out += c.lower()
    return out


class Field:
    def __init__(self, name, kind, ty, opt="required", naming=None, value_name=None, doc=None):
        self.name, self.kind, self.ty, self.opt, self.naming = name, kind, ty, opt, naming
        self.value_name = value_name
        self.doc = doc
        self.short = None
        self.long = None
        if kind in ("option", "flag"):
            gshort = name[0]
            glong = name.replace("_", "-")
            if naming == "short":
                self.short = gshort
            elif naming == "long":
                self.long = glong
            elif naming == "both":
                self.short, self.long = gshort, glong
            elif naming == "short_custom":
                self.short = "Ю"
            elif naming == "long_custom":
                self.long = "конф"
            elif naming == "both_custom":
                self.short, self.long = "q", "my-long"
            elif naming == "short_gen_long_custom":
                self.short, self.long = gshort, "brightness"
            elif naming == "short_custom_long_gen":
                self.short, self.long = "z", glong
            elif naming == "short_h_long_gen":
                self.short, self.long = "h", glong
            elif naming == "long_help":
                self.long = "help"

    def attr(self):
        parts = []
        n = self.naming
        if n == "short":
            parts.append("short")
        elif n == "long":
            parts.append("long")
        elif n == "both":
            parts += ["short", "long"]
        elif n == "short_custom":
            parts.append("short = 'Ю'")
        elif n == "long_custom":
            parts.append('long = "конф"')
        elif n == "both_custom":
            parts += ["short = 'q'", 'long = "my-long"']
        elif n == "short_gen_long_custom":
            parts += ["short", 'long = "brightness"']
        elif n == "short_custom_long_gen":
            parts += ["short = 'z'", "long"]
        elif n == "short_h_long_gen":
            parts += ["short = 'h'", "long"]
        elif n == "long_help":
            parts.append('long = "help"')
        t = TYPES[self.ty]
        if self.opt == "default_value":
            parts.append('default_value = "%s"' % t[2])
        elif self.opt == "default_value_t_expr":
            parts.append("default_value_t = %s" % t[3])
        elif self.opt == "default_value_t":
            parts.append("default_value_t")
        if self.value_name:
            parts.append('value_name = "%s"' % self.value_name)
        return "#[arg(%s)]" % ", ".join(parts) if parts else ""

    def rust_ty(self):
        t = "&'a str" if self.ty == "&str" else self.ty
        return "Option<%s>" % t if self.opt == "option" else t

    def decl(self):
        t = TYPES[self.ty]
        default = None
        if self.opt == "default_value":
            default = {"kind": "value", "text": t[2]}
        elif self.opt == "default_value_t_expr":
            default = {"kind": "debug", "debug": t[4]}
        elif self.opt == "default_value_t":
            default = {"kind": "debug", "debug": t[5]}
        return {
            "name": self.name,
            "kind": self.kind,
            "ty": self.ty,
            "wrap": "option" if self.opt == "option" else "plain",
            "default": default,
            "short": self.short,
            "long": self.long,
            "value_name": self.value_name or self.name.upper(),
            "doc": self.doc,
        }

    def uses_lifetime(self):
        return self.ty == "&str"


class Sub:
    def __init__(self, enum, field=None, optional=False):
        self.enum, self.field, self.optional = enum, field, optional


class Cmd:
    def __init__(self, ident, fields=(), sub=None, name=None, doc=None, tuple_sub=False):
        self.ident, self.fields, self.sub, self.explicit_name, self.doc = ident, list(fields), sub, name, doc
        self.tuple_sub = tuple_sub
        self.name = name if name is not None else kebab(ident)


class Enum:
    def __init__(self, ident, cmds, help_title=None):
        self.ident, self.cmds, self.help_title = ident, cmds, help_title
        self.kind = "command"

    def lifetime(self, enums):
        for c in self.cmds:
            if any(f.uses_lifetime() for f in c.fields):
                return True
            if c.sub and enums[c.sub.enum].lifetime(enums):
                return True
        return False


class Group:
    def __init__(self, ident, members):
        # members: (variant ident, enum ident or "RawCommand", hidden)
        self.ident, self.members = ident, members
        self.kind = "group"

    def lifetime(self, enums):
        return any(m[1] == "RawCommand" or enums[m[1]].lifetime(enums) for m in self.members)


DOCS = [None, ["Does one thing."], ["Short summary here.", "", "A second paragraph", "that spans two lines."]]
# further doc-comment shapes (used by a dedicated enum): summary ending in two dots (kept), lines with
# extra blanks (merged and trimmed), a blank line first, three paragraphs, a multi-byte summary
DOCS_EXTRA = [
    ["Wait for it.."],
    ["  Padded   summary  ", "continues here."],
    ["", "Summary after a blank line.", "", "", "Second paragraph after two blank lines."],
    ["One.", "", "Two.", "", "Three."],
    ["Résumé in UTF-8: é中𝄞."],
]
FDOCS = [None, "Field documentation"]


def tokens_for(cmd, enums):
    """token alphabet built from the command's own declaration"""
    toks = []

    def add(t):
        if t not in toks:
            toks.append(t)

    for f in cmd.fields:
        t = TYPES[f.ty]
        if f.kind == "positional":
            for v in t[0]:
                add(v)
            if t[1] is not None:
                add(t[1])
        elif f.kind == "option":
            if f.long:
                add("--" + f.long)
            if f.short:
                add("-" + f.short)
            add(t[0][0])
            if t[1] is not None:
                add(t[1])
        else:
            if f.long:
                add("--" + f.long)
            if f.short:
                add("-" + f.short)
    shorts = [f.short for f in cmd.fields if f.short]
    if len(shorts) >= 2:
        add("-" + shorts[0] + shorts[1])
    elif len(shorts) == 1:
        add("-" + shorts[0] + "z")
    if cmd.sub:
        se = enums[cmd.sub.enum]
        for c in se.cmds[:3]:
            add(c.name)
            for x in tokens_for(c, enums)[:3]:
                add(x)
        add("nosuch")
    add("--")
    add("--zz")
    add("-z")
    add("extra")
    add("-3")
    return toks[:14]


def long_lines_for(cmd, enums, cap=700):
    """complete argument lines for commands with three or more fields: every subset of the argument groups
    (positional value / option + value in each spelling / flag) in every order that keeps the positionals in
    declaration order, plus the full line with one invalid value; deterministic, capped by a stride"""
    if len(cmd.fields) < 3:
        return []
    groups = []  # (field index, kind, list of alternative token lists)
    for i, f in enumerate(cmd.fields):
        t = TYPES[f.ty]
        if f.kind == "positional":
            groups.append((i, "positional", [[t[0][0]]]))
        elif f.kind == "option":
            alts = []
            if f.long:
                alts.append(["--" + f.long, t[0][0]])
            if f.short:
                alts.append(["-" + f.short, t[0][0]])
            groups.append((i, "option", alts))
        else:
            alts = []
            if f.long:
                alts.append(["--" + f.long])
            if f.short:
                alts.append(["-" + f.short])
            groups.append((i, "flag", alts))
    lines = []
    n = len(groups)
    for mask in range(1 << n):
        chosen = [g for k, g in enumerate(groups) if mask >> k & 1]
        for perm in itertools.permutations(chosen):
            pos = [g[0] for g in perm if g[1] == "positional"]
            if pos != sorted(pos):
                continue
            for alt in range(2):
                line = []
                for g in perm:
                    a = g[2][min(alt, len(g[2]) - 1)]
                    line += a
                if line not in lines:
                    lines.append(line)
    # one invalid value in each value position of the full line
    full = [g[2][0] for g in groups]
    for k, g in enumerate(groups):
        f = cmd.fields[g[0]]
        bad = TYPES[f.ty][1]
        if g[1] != "flag" and bad is not None:
            line = []
            for j, a in enumerate(full):
                line += (a[:-1] + [bad]) if j == k else a
            lines.append(line)
    sub = []
    if cmd.sub:
        se = enums[cmd.sub.enum]
        c0 = se.cmds[0]
        subline = [c0.name] + [TYPES[f.ty][0][0] for f in c0.fields if f.kind == "positional"]
        sub = [l + subline for l in lines[::3]]
    lines = lines + sub
    if len(lines) > cap:
        step = len(lines) / float(cap)
        lines = [lines[int(i * step)] for i in range(cap)]
    return lines


def rust_enum(e, enums):
    lt = "<'a>" if e.lifetime(enums) else ""
    out = []
    out.append("#[derive(Debug, Command)]")
    if e.help_title:
        out.append('#[command(help_title = "%s")]' % e.help_title)
    out.append("pub enum %s%s {" % (e.ident, lt))
    for c in e.cmds:
        if c.doc:
            for l in c.doc:
                out.append("    ///%s" % ((" " + l) if l else ""))
        attrs = []
        if c.explicit_name is not None:
            attrs.append('name = "%s"' % c.explicit_name)
        if c.tuple_sub:
            attrs.append("subcommand")
        if attrs:
            out.append("    #[command(%s)]" % ", ".join(attrs))
        if c.tuple_sub:
            se = enums[c.sub.enum]
            out.append("    %s(%s%s)," % (c.ident, se.ident, "<'a>" if se.lifetime(enums) else ""))
        elif not c.fields and not c.sub:
            out.append("    %s," % c.ident)
        else:
            out.append("    %s {" % c.ident)
            for f in c.fields:
                if f.doc:
                    out.append("        /// %s" % f.doc)
                a = f.attr()
                if a:
                    out.append("        " + a)
                out.append("        %s: %s," % (f.name, f.rust_ty()))
            if c.sub:
                se = enums[c.sub.enum]
                t = se.ident + ("<'a>" if se.lifetime(enums) else "")
                if c.sub.optional:
                    t = "Option<%s>" % t
                out.append("        #[command(subcommand)]")
                out.append("        %s: %s," % (c.sub.field, t))
            out.append("    },")
    out.append("}")
    return "\n".join(out)


def rust_group(g, enums):
    lt = "<'a>" if g.lifetime(enums) else ""
    out = ["#[derive(Debug, CommandGroup)]", "pub enum %s%s {" % (g.ident, lt)]
    for ident, en, hidden in g.members:
        if hidden:
            out.append("    #[group(hidden)]")
        if en == "RawCommand":
            out.append("    %s(embedded_cli::command::RawCommand<'a>)," % ident)
        else:
            out.append("    %s(%s%s)," % (ident, en, "<'a>" if enums[en].lifetime(enums) else ""))
    out.append("}")
    return "\n".join(out)


def glue(e, enums):
    lt = "<'_>" if e.lifetime(enums) else ""
    i = e.ident
    return """
fn run_{l}(cli: &mut CliT, bytes: &[u8], log: &mut Vec<String>) -> Result<(), SinkErr> {{
    let mut res = Ok(());
    let mut p = {i}::processor(|_cli, cmd| {{
        log.push(format!("{{:?}}", cmd));
        Ok(())
    }});
    for b in bytes {{
        if let Err(e) = cli.process_byte::<{i}{lt}, _>(*b, &mut p) {{
            res = Err(e);
        }}
    }}
    res
}}
fn parse_{l}(name: &str, raw_args: &str, no_args: bool) -> ParseOut {{
    let args = ArgList::new(Tokens::from_raw(raw_args, no_args));
    let raw = RawCommand::new(name, args);
    match <{i}{lt} as FromRaw>::parse(raw) {{
        Ok(v) => ParseOut::Ok(format!("{{:?}}", v)),
        Err(e) => ParseOut::from_err(e),
    }}
}}
fn complete_{l}(word: &str, buf: &mut [u8]) -> (Option<String>, bool) {{
    complete_with::<{i}{lt}>(word, buf)
}}
""".format(l=i.lower(), i=i, lt=lt)


def build_set(which):
    enums = {}
    order = []

    def add(e):
        enums[e.ident] = e
        order.append(e)
        return e

    # ---------------- sub-command enums used by nesting shapes
    add(Enum("SubA", [
        Cmd("Get", [Field("file", "positional", "&str", doc="File to get")], doc=DOCS[1]),
        Cmd("Set", [Field("value", "positional", "u8")], doc=DOCS[2]),
        Cmd("Nop"),
    ]))
    add(Enum("SubB", [
        Cmd("Deep", sub=Sub("SubA"), tuple_sub=True, doc=DOCS[1]),
        Cmd("Leaf", [Field("flag", "flag", "bool", naming="short")]),
    ], help_title="Nested"))

    # ---------------- single-field commands
    singles = []
    for ty in TYPES:
        for opt in OPTS:
            singles.append(Field("val", "positional", ty, opt))
    singles.append(Field("val", "positional", "u8", "required", value_name="NUM"))
    singles.append(Field("val", "positional", "&str", "option", value_name="TXT"))
    for ty in TYPES:
        if ty == "bool":
            continue
        for opt in OPTS:
            singles.append(Field("my_opt", "option", ty, opt, naming="both"))
    for ty in ("u8", "&str"):
        for naming in NAMINGS:
            if naming == "both":
                continue
            for opt in ("required", "option"):
                singles.append(Field("my_opt", "option", ty, opt, naming=naming))
    singles.append(Field("my_opt", "option", "u8", "required", naming="long", value_name="lvl"))
    for naming in NAMINGS:
        singles.append(Field("my_flag", "flag", "bool", "required", naming=naming))
    singles.append(Field("my_flag", "flag", "bool", "option", naming="both"))
    singles.append(Field("my_flag", "flag", "bool", "option", naming="short"))
    if which == "quick":
        keep = [f for f in singles if f.naming in ("short_gen_long_custom", "short_custom_long_gen")]
        singles = singles[::3] + [singles[1]] + [f for f in keep if f not in singles[::3]]
    elif which == "c16":
        singles = []
    for i, f in enumerate(singles):
        f.doc = FDOCS[i % 2]
    cmds = [Cmd("S%d" % i, [f], doc=DOCS[i % 3], name="s%d" % i) for i, f in enumerate(singles)]
    # special names: multi-word ident (kebab), explicit ASCII, multi-byte
    if cmds:
        cmds[0].ident = "GetLedState"
        cmds[0].explicit_name = None
        cmds[0].name = kebab("GetLedState")
        if len(cmds) > 2:
            cmds[1].explicit_name = cmds[1].name = "renamed"
            cmds[2].explicit_name = cmds[2].name = "кмд"
    for k in range(0, len(cmds), 7):
        add(Enum("PS%d" % (k // 7), cmds[k:k + 7], help_title="Single" if (k // 7) % 2 else None))

    # ---------------- pairs over a 10-shape subset
    def s10(i, name):
        return [
            Field(name, "positional", "u8", "required"),
            Field(name, "positional", "&str", "option"),
            Field(name, "positional", "char", "default_value"),
            Field(name, "option", "u8", "required", naming="both"),
            Field(name, "option", "&str", "option", naming="short"),
            Field(name, "option", "f32", "default_value", naming="long"),
            Field(name, "flag", "bool", "required", naming="short"),
            Field(name, "flag", "bool", "required", naming="long"),
            Field(name, "positional", "bool", "required"),
            Field(name, "option", "i16", "default_value_t", naming="both"),
        ][i]
    pairs = []
    for i in range(10):
        for j in range(10):
            pairs.append((i, j))
    if which == "quick":
        # one pair per (kind, kind) class plus required/required combinations in both orders
        pairs = [(0, 3), (3, 0), (0, 8), (1, 0), (0, 6), (6, 0), (3, 9), (4, 5), (5, 4), (6, 7), (2, 1), (8, 4), (9, 2), (3, 3), (7, 3), (0, 1), (4, 6)]
    elif which == "c16":
        pairs = [(3, 6), (0, 4)]
    pcmds = []
    for n, (i, j) in enumerate(pairs):
        fa, fb = s10(i, "alpha"), s10(j, "beta")
        fa.doc = FDOCS[n % 2]
        pcmds.append(Cmd("Pr%d" % n, [fa, fb], doc=DOCS[n % 3], name="pr%d" % n))
    for k in range(0, len(pcmds), 8):
        add(Enum("PP%d" % (k // 8), pcmds[k:k + 8]))

    # ---------------- positional triples
    if which != "c16":
        tcmds = []
        trip = list(itertools.product(["u8", "&str", "char"], repeat=3))
        if which == "quick":
            trip = trip[::4]
        for n, (a, b, c) in enumerate(trip):
            tcmds.append(Cmd("Tr%d" % n, name="tr%d" % n, fields=[
                Field("first", "positional", a, "required", doc="First one"),
                Field("second", "positional", b, "required"),
                Field("third", "positional", c, "option", doc="Third one"),
            ], doc=DOCS[n % 3]))
        for k in range(0, len(tcmds), 9):
            add(Enum("PT%d" % (k // 9), tcmds[k:k + 9]))

    # ---------------- nesting
    add(Enum("PN0", [
        Cmd("Req", sub=Sub("SubA", "cmd"), doc=DOCS[1]),
        Cmd("Opt", sub=Sub("SubA", "cmd", optional=True), doc=DOCS[2]),
        Cmd("Mixed", [Field("level", "option", "u8", "option", naming="both", doc="A level"),
                      Field("verbose", "flag", "bool", "required", naming="short")], sub=Sub("SubA", "command"), doc=DOCS[1]),
        Cmd("Tup", sub=Sub("SubA"), tuple_sub=True),
        Cmd("DeepThree", sub=Sub("SubB"), tuple_sub=True, doc=DOCS[2]),
        Cmd("Named", [Field("name", "option", "&str", "required", naming="long")], sub=Sub("SubB", "cmd")),
        # a command set that defines its own `help` and a plain unit command
        Cmd("Help", doc=["Own help command"]),
        Cmd("Exit"),
    ], help_title="Nesting"))

    # ---------------- options that use the names the help facility reserves (`-h`, `--help`): with the help
    # feature off they are ordinary options; through FromRaw::parse they are ordinary options in every build
    add(Enum("PH0", [
        Cmd("Conn", [Field("host", "option", "&str", "required", naming="short_h_long_gen", doc="Host name")], name="conn"),
        Cmd("Show", [Field("help", "flag", "bool", "required", naming="long_help"), Field("what", "positional", "&str", "option")], name="show"),
        Cmd("Hx", [Field("hex", "flag", "bool", "required", naming="short"), Field("level", "option", "u8", "option", naming="short_h_long_gen")], name="hx"),
    ]))

    # ---------------- rich variants: five fields (two positionals, a required option declared after them, a flag,
    # an optional option); options of wide types in front of an optional sub-command
    add(Enum("PR0", [
        Cmd("Copy", [
            Field("source", "positional", "&str", "required", doc="Where from"),
            Field("target", "positional", "&str", "required"),
            Field("count", "option", "i64", "required", naming="both", doc="How many"),
            Field("force", "flag", "bool", "required", naming="long"),
            Field("label", "option", "&str", "option", naming="short"),
        ], doc=DOCS[2], name="copy"),
        Cmd("Net", [
            Field("iface", "option", "&str", "default_value", naming="long", doc="Interface"),
            Field("verbose", "flag", "bool", "required", naming="short"),
            Field("mtu", "option", "u128", "option", naming="both"),
        ], sub=Sub("SubA", "cmd", optional=True), doc=DOCS[1], name="net"),
        Cmd("Calib", [
            Field("gain", "positional", "f64", "required"),
            Field("offset", "positional", "i8", "default_value"),
            Field("samples", "option", "usize", "default_value_t_expr", naming="both"),
            Field("dry_run", "flag", "bool", "required", naming="both"),
        ], name="calib"),
    ], help_title="Rich"))

    # ---------------- doc-comment shapes
    if which != "c16":
        dcmds = []
        for i, d in enumerate(DOCS_EXTRA):
            f = Field("val", "positional", "u8", "option", doc="Field doc number %d." % i)
            dcmds.append(Cmd("Doc%s" % "ABCDE"[i], [f], doc=d, name="doc%s" % "abcde"[i]))
        add(Enum("PD0", dcmds, help_title="Documented"))

    # ---------------- groups
    first = order[2].ident if len(order) > 2 else "PN0"
    second = "PN0"
    add(Group("G0", [("A", first, False), ("B", second, False)]))
    add(Group("G1", [("A", first, False), ("H", second, True)]))
    add(Group("G2", [("A", second, False), ("B", "SubA", False), ("Other", "RawCommand", False)]))
    add(Group("G3", [("H", first, True), ("B", "SubB", False), ("C", second, False)]))
    return enums, order


def names_set(which):
    """C11: every ordered list of <= 3 distinct names from the pool, one derived enum each"""
    pool = ["a", "ab", "abc", "abd", "b", "ba", "é", "éa", "aé", "aè", "h", "help", "hex"]
    lists = []
    for n in (1, 2, 3):
        for p in itertools.permutations(pool, n):
            lists.append(list(p))
    if which == "quick":
        chosen = [("abc", "abd", "ab"), ("a", "ab", "abc"), ("h", "help", "hex"), ("é", "éa", "aé"), ("abc", "b", "abd"), ("ab", "aé", "a"), ("help", "hex", "a"), ("ba", "b", "abd"), ("aé", "aè", "a")]
        tri = []
        for c in chosen:
            tri += [list(p) for p in itertools.permutations(c, 3)]
        lists = [l for l in lists if len(l) <= 2] + tri
    elif which == "c16":
        # round 12: names sharing a prefix with the built-in `help`, and members of visible/hidden groups, so that the
        # completion enumeration (run under every build that has autocomplete) meets help-off + autocomplete-on
        lists = [["ab", "abc"], ["abd", "b"], ["é", "éa", "aé"], ["h"], ["hex", "help"], ["hax", "hay"], ["h", "hex", "hello"]]
    if which != "c16":
        # names outside the pool: two `h` commands that agree beyond what they share with the built-in `help`;
        # 3- and 4-byte characters that differ only in their last octet; a name equal to the common prefix last
        extra = [["hax", "hay"], ["hay", "hax", "a"], ["hax", "h", "hay"], ["a中", "a丮"], ["a丮", "a中", "ab"], ["b𝄞", "b𝄟"],
                 ["abc", "abd", "ab"], ["abcab", "abcabd", "abca"], ["中", "丮"],
                 # names longer than one or two machine words, agreeing for 8, 16, 17 bytes; four and five matches;
                 # long multi-byte names; names that extend the built-in `help`
                 ["aaaaaaaaaaaaaaaab", "aaaaaaaaaaaaaaaac", "aaaaaaaaa"], ["ab-long-command-one", "ab-long-command-two"],
                 ["aaaaaaaab", "aaaaaaaac"], ["aaaaaaab", "aaaaaaac", "aaaaaaad", "aaaaaaa"],
                 ["éééééééééa", "ééééééééébb"], ["ba", "bab", "baba", "babab", "b"], ["bab", "baba", "ba", "babab"],
                 ["helper-function", "help-me"], ["help-me", "hello", "helper-function", "hex"]]
        lists = lists + [l for l in extra if l not in lists]
    return lists


def write_if_changed(path, text):
    try:
        with open(path) as f:
            if f.read() == text:
                return
    except OSError:
        pass
    with open(path, "w") as f:
        f.write(text)


def main():
    which, out = sys.argv[1], sys.argv[2]
    enums, order = build_set(which)
    names = names_set(which)
    os.makedirs(os.path.join(out, "src"), exist_ok=True)
    write_if_changed(os.path.join(out, "Cargo.toml"), """[package]
name = "progs-%s"
version = "0.1.0"
edition = "2021"

[lib]
path = "src/lib.rs"

[features]
default = ["history", "autocomplete", "help"]
history = ["mcx/history"]
autocomplete = ["mcx/autocomplete"]
help = ["mcx/help"]

[dependencies]
mcx = { path = "../mcx", default-features = false }
embedded-cli = { path = "/repo/embedded-cli", default-features = false, features = ["macros", "verif-hooks"] }
embedded-io = "0.6.1"
""" % which)
    src = []
    src.append("// @generated by mc/gen/gen.py %s -- do not edit\n#![allow(dead_code, unused_variables, clippy::all)]\n" % which)
    src.append("use embedded_cli::__verif::Tokens;\nuse embedded_cli::arguments::ArgList;\nuse embedded_cli::command::RawCommand;\nuse embedded_cli::service::FromRaw;\nuse embedded_cli::{Command, CommandGroup};\nuse mcx::base::SinkErr;\nuse mcx::progs::{complete_with, ParseOut, Prog};\nuse mcx::session::CliT;\n")
    decls = []
    regs = []
    for e in order:
        if e.kind == "command":
            src.append(rust_enum(e, enums))
            src.append(glue(e, enums))
            d = {"id": e.ident, "kind": "command", "help_title": e.help_title or "Commands", "commands": []}
            for c in e.cmds:
                d["commands"].append({
                    "ident": c.ident, "name": c.name, "doc": c.doc,
                    "fields": [f.decl() for f in c.fields],
                    "sub": None if not c.sub else {"field": c.sub.field, "enum": c.sub.enum, "optional": c.sub.optional},
                    "tuple": c.tuple_sub,
                    "tokens": (["--help", "-h"] if which == "c16" else []) + tokens_for(c, enums),
                    "long_lines": long_lines_for(c, enums, 250 if which == "quick" else 700),
                })
            decls.append(d)
        else:
            src.append(rust_group(e, enums))
            src.append(glue(e, enums))
            decls.append({"id": e.ident, "kind": "group", "members": [{"ident": m[0], "enum": m[1], "hidden": m[2]} for m in e.members]})
        regs.append('    Prog { id: "%s", run: run_%s, parse: parse_%s, complete: complete_%s },' % (e.ident, e.ident.lower(), e.ident.lower(), e.ident.lower()))
    # C11 name-list enums
    for i, lst in enumerate(names):
        ident = "N%d" % i
        body = ["#[derive(Debug, Command)]", "pub enum %s {" % ident]
        for j, n in enumerate(lst):
            body.append('    #[command(name = "%s")]' % n)
            body.append("    V%d," % j)
        body.append("}")
        src.append("\n".join(body))
        e = Enum(ident, [])
        src.append(glue(e, {ident: e}))
        decls.append({"id": ident, "kind": "names", "names": lst})
        regs.append('    Prog { id: "%s", run: run_%s, parse: parse_%s, complete: complete_%s },' % (ident, ident.lower(), ident.lower(), ident.lower()))
    # groups of two name enums, visible/hidden, both orders (C11)
    ngroups = []
    if len(names) >= 4:
        idx = {tuple(l): i for i, l in enumerate(names)}
        pairs = [(("ab", "abc"), ("abd", "b")), (("a",), ("ab",)), (("é", "éa"), ("aé", "a")), (("h",), ("hex", "help")), (("aé",), ("aè",))]
        for k, (x, y) in enumerate(pairs):
            if x in idx and y in idx:
                for hidden in (False, True):
                    for order2 in ((x, y), (y, x)):
                        gi = "NG%d" % len(ngroups)
                        a, b = idx[order2[0]], idx[order2[1]]
                        src.append("#[derive(Debug, CommandGroup)]\npub enum %s {\n    A(N%d),\n%s    B(N%d),\n}" % (gi, a, "    #[group(hidden)]\n" if hidden else "", b))
                        e = Enum(gi, [])
                        src.append(glue(e, {gi: e}))
                        decls.append({"id": gi, "kind": "namegroup", "members": [{"names": list(order2[0]), "hidden": False}, {"names": list(order2[1]), "hidden": hidden}]})
                        regs.append('    Prog { id: "%s", run: run_%s, parse: parse_%s, complete: complete_%s },' % (gi, gi.lower(), gi.lower(), gi.lower()))
                        ngroups.append(gi)
    src.append("pub static PROGS: &[Prog] = &[\n%s\n];\n" % "\n".join(regs))
    src.append('pub static DECLS_JSON: &str = include_str!("../decls.json");\n')
    write_if_changed(os.path.join(out, "src", "lib.rs"), "\n".join(src))
    write_if_changed(os.path.join(out, "decls.json"), json.dumps(decls, indent=0, ensure_ascii=False))
    print("gen %s: %d enums/groups, %d name enums, %d name groups" % (which, len(order), len(names), len(ngroups)))


if __name__ == "__main__":
    main()
