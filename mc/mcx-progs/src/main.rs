//! E4 engine binary: linked against exactly one generated declaration crate (cargo feature quick / full / c16).

#[cfg(feature = "c16")]
use progs_c16 as progs;
#[cfg(all(feature = "full", not(feature = "c16")))]
use progs_full as progs;
#[cfg(all(feature = "quick", not(feature = "full"), not(feature = "c16")))]
use progs_quick as progs;

use mcx::report::{EnumOutcome, Report};

fn push(rep: &mut Report, o: EnumOutcome) {
    eprintln!(
        "  {}: evaluations={} nontrivial={} viol={:?} {:.2}s",
        o.name, o.evaluations, o.distinct_nontrivial, o.viol_counts, o.wall_s
    );
    rep.enumerations.push(o);
}

fn main() {
    let args: Vec<String> = std::env::args().collect();
    if args.len() < 5 {
        eprintln!("usage: mcx-progs <property> <quick|thorough> <seed> <out.json>");
        std::process::exit(2);
    }
    let prop = args[1].clone();
    let tier = args[2].clone();
    let out = args[4].clone();
    mcx::e3::SEED.store(args[3].parse().unwrap_or(0), std::sync::atomic::Ordering::Relaxed);
    mcx::session::install_quiet_panic_hook();
    if let Some(pos) = args.iter().position(|a| a == "--replay") {
        let txt = std::fs::read_to_string(&args[pos + 1]).expect("read replay file");
        let j: serde_json::Value = serde_json::from_str(&txt).expect("parse replay file");
        let path: Vec<String> = j["path"].as_array().map(|a| a.iter().map(|x| x.as_str().unwrap_or("").to_string()).collect()).unwrap_or_default();
        println!("REPLAY case={:?} (the enumeration is run again; violations of this case are printed)", path);
        mcx::report::REPLAY_CASE.set(path).ok();
    }
    let decls = mcx::interp::parse_decls(progs::DECLS_JSON);
    let mut rep = Report { prop: prop.clone(), tier: tier.clone(), ..Default::default() };
    let quick = tier == "quick";
    match prop.as_str() {
        "C09" => {
            push(&mut rep, mcx::e4::c09(progs::PROGS, &decls, if quick { 3 } else { 4 }));
            push(&mut rep, mcx::e3_long::c09_values(if quick { 4 } else { 5 }));
        }
        "C11" => push(&mut rep, mcx::e4::c11(progs::PROGS, &decls, if quick { 3 } else { 4 }, 6)),
        "C12" => push(&mut rep, mcx::e4::c12(progs::PROGS, &decls, if quick { 2 } else { 3 })),
        "C16" => {
            push(&mut rep, mcx::e4::c09(progs::PROGS, &decls, 3));
            // completion of derived names and groups under every build that has the facility (help on and off)
            if cfg!(feature = "autocomplete") {
                push(&mut rep, mcx::e4::c11(progs::PROGS, &decls, if quick { 3 } else { 4 }, 6));
            }
        }
        "C15" => push(&mut rep, mcx::e4::c15(progs::PROGS, &decls, if quick { 3 } else { 4 })),
        _ => {
            eprintln!("unknown property {}", prop);
            std::process::exit(2);
        }
    }
    rep.check_required();
    if mcx::report::REPLAY_CASE.get().is_some() {
        println!("REPLAY done: {} violation(s) raised for this case", mcx::report::REPLAY_HITS.load(std::sync::atomic::Ordering::Relaxed));
    }
    std::fs::write(&out, serde_json::to_string_pretty(&rep.to_json()).unwrap()).expect("write result");
}
