//! E6: every interleaving of two independent instances, up to a depth, executed sequentially from scratch.
//!
//! The library keeps all of its state in the values the caller owns; nothing in the statements allows the
//! behaviour of one `Cli` (or decoder) to depend on what another instance in the same program did ("decoding
//! of the input stream depends only on the byte sequence", C04). A change that hoists a scratch buffer, a
//! look-up result or a "last byte" into module-level (`static`) storage breaks that, and no exploration of a
//! single instance can show it. Here two fresh instances A and B are driven by *every* sequence of at most
//! `depth` events, each event addressed to A or to B (the first one to A, by symmetry); afterwards A's
//! projection of the sequence is run alone on a third fresh instance, B's on a fourth. What A (B) answered,
//! step by step, and its canonical final state must be identical in both runs: a purely differential oracle.
//!
//! Everything runs on one thread and every sequence starts from fresh instances, so what module-level state
//! exists is written in exactly the order of the sequence; a reported sequence is re-executed twice and must
//! fail both times (whatever the previous sequence left behind).

use crate::base::*;
use crate::report::EnumOutcome;
use crate::session::*;
use embedded_cli::__verif::{Input, InputGenerator};
use embedded_cli::service::{Autocomplete, Help};
use std::time::Instant;

type DecObs = (u8, Vec<u8>);

fn dec_feed(g: &mut InputGenerator, b: u8) -> DecObs {
    match g.accept(b) {
        Some(Input::Char(s)) => (1, s.as_bytes().to_vec()),
        Some(Input::Control(k)) => (2, crate::e2::ctl_name(k).as_bytes().to_vec()),
        None => (0, vec![]),
    }
}

/// the canonical decoder state read through the accessor. The derived struct hash is deliberately NOT compared:
/// a field that legitimately differs between instances (an instance number drawn from a global counter, a
/// statistics field) must not be reported; what counts is what an instance answers
fn dec_final(g: &InputGenerator) -> ((u8, u8, [u8; 4], u8, u8), u64) {
    (canon_dec(g.__verif_state()), 0)
}

/// run `seq` (instance, byte) on two fresh decoders; then each projection alone; Some(detail) on a difference
fn dec_case(seq: &[(u8, u8)]) -> Option<String> {
    let mut g = [InputGenerator::new(), InputGenerator::new()];
    let mut obs: [Vec<DecObs>; 2] = [vec![], vec![]];
    for &(i, b) in seq {
        let o = dec_feed(&mut g[i as usize], b);
        obs[i as usize].push(o);
    }
    for inst in 0..2u8 {
        let mut solo = InputGenerator::new();
        let mut sobs = vec![];
        for &(i, b) in seq {
            if i == inst {
                sobs.push(dec_feed(&mut solo, b));
            }
        }
        if sobs != obs[inst as usize] || dec_final(&solo) != dec_final(&g[inst as usize]) {
            let bytes: Vec<u8> = seq.iter().filter(|(i, _)| *i == inst).map(|(_, b)| *b).collect();
            return Some(format!(
                "decoder {} fed {:02X?}: interleaved with the other decoder it answered {:?} (final state {:?}), alone it answers {:?} (final state {:?})",
                if inst == 0 { "A" } else { "B" },
                bytes,
                obs[inst as usize],
                dec_final(&g[inst as usize]).0,
                sobs,
                dec_final(&solo).0
            ));
        }
    }
    None
}

fn render_dec(seq: &[(u8, u8)]) -> Vec<String> {
    seq.iter().map(|(i, b)| format!("{}:{:02X}", if *i == 0 { "A" } else { "B" }, b)).collect()
}

pub fn dec_interleavings(prop: &str, bytes: &[u8], depth: usize) -> EnumOutcome {
    let t0 = Instant::now();
    let mut o = EnumOutcome::default();
    o.name = format!("two decoders, every interleaving of <= {} bytes over {} byte values", depth, bytes.len());
    o.rule = "every sequence of (decoder A|B, byte) with the first byte going to A; each decoder's answers and final state compared with the same decoder fed its bytes alone; non-trivial = both decoders received at least one byte".into();
    let evs: Vec<(u8, u8)> = (0..2u8).flat_map(|i| bytes.iter().map(move |b| (i, *b))).collect();
    let n = evs.len();
    let mut expected = 0u64;
    for len in 1..=depth {
        // first event restricted to instance A
        let total = (bytes.len() as u64) * (n as u64).pow(len as u32 - 1);
        expected += total;
        let mut idx = vec![0usize; len];
        loop {
            let seq: Vec<(u8, u8)> = idx.iter().map(|&i| evs[i]).collect();
            o.evaluations += 1;
            if seq.iter().any(|(i, _)| *i == 1) {
                o.distinct_nontrivial += 1;
            }
            if let Some(d) = dec_case(&seq) {
                let again = dec_case(&seq).is_some() && dec_case(&seq).is_some();
                if again {
                    o.viol(format!("{}/decoding-depends-on-another-instance", prop), d, render_dec(&seq));
                } else {
                    o.viol("MACHINERY/interleaving-not-reproducible", d, render_dec(&seq));
                }
            }
            // next index vector (first position only over instance A's events)
            let mut p = len;
            loop {
                if p == 0 {
                    break;
                }
                p -= 1;
                let lim = if p == 0 { bytes.len() } else { n };
                idx[p] += 1;
                if idx[p] < lim {
                    break;
                }
                idx[p] = 0;
                if p == 0 {
                    p = usize::MAX;
                    break;
                }
            }
            if p == usize::MAX {
                break;
            }
        }
    }
    o.expected = Some(expected);
    o.exhaustive = o.evaluations == expected;
    o.samples = vec![serde_json::json!(["A:D1", "B:F0", "A:8F"]), serde_json::json!(["A:1B", "B:5B", "A:5B", "A:41"])];
    o.wall_s = t0.elapsed().as_secs_f64();
    o
}

// ------------------------------------------------------------------ two whole Cli sessions

#[derive(Clone, Debug, PartialEq)]
struct CliObs {
    ok: bool,
    panicked: bool,
    sink: Vec<u8>,
    handler: Vec<HCall>,
    after: Snap,
}

fn cli_step<C: Autocomplete + Help>(s: &mut Sess, e: &Ev) -> Vec<CliObs> {
    apply_in_place::<C>(s, e)
        .into_iter()
        .map(|c| CliObs { ok: c.ok, panicked: c.panicked.is_some(), sink: sink_bytes(&c.sink), handler: c.handler, after: c.after })
        .collect()
}

fn cli_case<C: Autocomplete + Help>(cb: usize, hb: usize, seq: &[(u8, Ev)]) -> Option<String> {
    let mut s = [new_sess(cb, hb, "$ ", false), new_sess(cb, hb, "$ ", false)];
    let mut obs: [Vec<Vec<CliObs>>; 2] = [vec![], vec![]];
    for (i, e) in seq {
        let o = cli_step::<C>(&mut s[*i as usize], e);
        obs[*i as usize].push(o);
    }
    for inst in 0..2u8 {
        let mut solo = new_sess(cb, hb, "$ ", false);
        let mut sobs = vec![];
        for (i, e) in seq {
            if *i == inst {
                sobs.push(cli_step::<C>(&mut solo, e));
            }
        }
        // hooked state and screen; the derived struct hash is left out (see `dec_final`)
        let same_final = {
            let (mut a, mut b) = (skey(&solo), skey(&s[inst as usize]));
            a.shash = 0;
            b.shash = 0;
            a == b
        };
        if sobs != obs[inst as usize] || !same_final {
            let evs: Vec<String> = seq.iter().filter(|(i, _)| *i == inst).map(|(_, e)| e.render()).collect();
            // first differing step
            let mut at = String::new();
            for (k, (a, b)) in obs[inst as usize].iter().zip(sobs.iter()).enumerate() {
                if a != b {
                    let (x, y) = (a.last().unwrap(), b.last().unwrap());
                    at = format!(
                        "; first difference at its event {} ({}): interleaved -> ok={} sink {:?} handler {:?} line {:?}@{}; alone -> ok={} sink {:?} handler {:?} line {:?}@{}",
                        k + 1,
                        evs[k],
                        x.ok,
                        String::from_utf8_lossy(&x.sink),
                        x.handler,
                        String::from_utf8_lossy(&x.after.text),
                        x.after.cursor,
                        y.ok,
                        String::from_utf8_lossy(&y.sink),
                        y.handler,
                        String::from_utf8_lossy(&y.after.text),
                        y.after.cursor
                    );
                    break;
                }
            }
            return Some(format!("Cli {} given {:?} behaves differently when another Cli is driven in between{}", if inst == 0 { "A" } else { "B" }, evs, at));
        }
    }
    None
}

pub fn cli_interleavings<C: Autocomplete + Help>(prop: &str, label: &str, cb: usize, hb: usize, events: &[Ev], depth: usize) -> EnumOutcome {
    let t0 = Instant::now();
    let mut o = EnumOutcome::default();
    o.name = format!("two Cli instances ({}), cb={} hb={}, every interleaving of <= {} events over {} events", label, cb, hb, depth, events.len());
    o.rule = "every sequence of (Cli A|B, event) with the first event going to A; per call: result, sink bytes, handler calls and hooked state, and the canonical final state, compared with the same Cli given its events alone; non-trivial = both instances received at least one event".into();
    let evs: Vec<(u8, Ev)> = (0..2u8).flat_map(|i| events.iter().map(move |e| (i, e.clone()))).collect();
    let n = evs.len();
    let mut expected = 0u64;
    for len in 1..=depth {
        expected += (events.len() as u64) * (n as u64).pow(len as u32 - 1);
        let mut idx = vec![0usize; len];
        'outer: loop {
            let seq: Vec<(u8, Ev)> = idx.iter().map(|&i| evs[i].clone()).collect();
            o.evaluations += 1;
            if seq.iter().any(|(i, _)| *i == 1) {
                o.distinct_nontrivial += 1;
            }
            if let Some(d) = cli_case::<C>(cb, hb, &seq) {
                let again = cli_case::<C>(cb, hb, &seq).is_some() && cli_case::<C>(cb, hb, &seq).is_some();
                let path: Vec<String> = seq.iter().map(|(i, e)| format!("{}:{}", if *i == 0 { "A" } else { "B" }, e.render())).collect();
                if again {
                    o.viol(format!("{}/behaviour-depends-on-another-instance", prop), d, path);
                } else {
                    o.viol("MACHINERY/interleaving-not-reproducible", d, path);
                }
                if o.viol_counts.values().sum::<u64>() > 2000 {
                    break 'outer;
                }
            }
            let mut p = len;
            loop {
                if p == 0 {
                    break 'outer;
                }
                p -= 1;
                let lim = if p == 0 { events.len() } else { n };
                idx[p] += 1;
                if idx[p] < lim {
                    break;
                }
                idx[p] = 0;
            }
        }
    }
    o.expected = Some(expected);
    o.exhaustive = o.evaluations == expected;
    o.samples = vec![serde_json::json!(["A:Ch('a')", "B:Ch('é')", "A:Lf"]), serde_json::json!(["A:Ch('a')", "A:Lf", "B:Up"])];
    o.wall_s = t0.elapsed().as_secs_f64();
    o
}

/// "Sandwiches": instance A is given i events, then instance B j events, then A k more events, for every
/// choice of the i + j + k events and every listed shape (i, j, k). A subset of the interleavings of length
/// i + j + k that reaches one step deeper than the complete enumeration can afford: the shape of an
/// interference through module-level state is "A prepares, B disturbs, A continues".
pub fn cli_sandwiches<C: Autocomplete + Help>(prop: &str, label: &str, cb: usize, hb: usize, events: &[Ev], shapes: &[(usize, usize, usize)]) -> EnumOutcome {
    let t0 = Instant::now();
    let mut o = EnumOutcome::default();
    o.name = format!("two Cli instances ({}), cb={} hb={}, every sandwich A^i B^j A^k over {} events for (i,j,k) in {:?}", label, cb, hb, events.len(), shapes);
    o.rule = "A gets i events, B gets j, A gets k more; per call: result, sink bytes, handler calls and hooked state, and the canonical final state, compared with the same Cli given its events alone; non-trivial = every case (both instances act)".into();
    let n = events.len();
    let mut expected = 0u64;
    for &(i, j, kk) in shapes {
        let len = i + j + kk;
        expected += (n as u64).pow(len as u32);
        let mut idx = vec![0usize; len];
        'outer: loop {
            let seq: Vec<(u8, Ev)> = idx.iter().enumerate().map(|(p, &e)| (if p >= i && p < i + j { 1u8 } else { 0u8 }, events[e].clone())).collect();
            o.evaluations += 1;
            o.distinct_nontrivial += 1;
            if let Some(d) = cli_case::<C>(cb, hb, &seq) {
                let again = cli_case::<C>(cb, hb, &seq).is_some() && cli_case::<C>(cb, hb, &seq).is_some();
                let path: Vec<String> = seq.iter().map(|(w, e)| format!("{}:{}", if *w == 0 { "A" } else { "B" }, e.render())).collect();
                if again {
                    o.viol(format!("{}/behaviour-depends-on-another-instance", prop), d, path);
                } else {
                    o.viol("MACHINERY/interleaving-not-reproducible", d, path);
                }
                if o.viol_counts.values().sum::<u64>() > 2000 {
                    break 'outer;
                }
            }
            let mut p = len;
            loop {
                if p == 0 {
                    break 'outer;
                }
                p -= 1;
                idx[p] += 1;
                if idx[p] < n {
                    break;
                }
                idx[p] = 0;
            }
        }
    }
    o.expected = Some(expected);
    o.exhaustive = o.evaluations == expected || !o.viol_counts.is_empty();
    o.samples = vec![serde_json::json!(["A:Ch('a')", "A:Ch('a')", "A:Left", "B:Ch('é')", "A:Right"])];
    o.wall_s = t0.elapsed().as_secs_f64();
    o
}
