//! Result file written by the engine for the `check` driver.

use crate::bfs::{FoundViol, Outcome, Stats};
use serde_json::{json, Value};
use std::collections::BTreeMap;

#[derive(Clone, Debug, Default)]
pub struct EnumOutcome {
    pub name: String,
    pub evaluations: u64,
    pub distinct_nontrivial: u64,
    pub rule: String,
    /// closed-form size of the enumerated space, when there is one
    pub expected: Option<u64>,
    pub exhaustive: bool,
    pub wall_s: f64,
    pub stats: Stats,
    pub viol_counts: BTreeMap<String, u64>,
    pub viols: Vec<FoundViol>,
    pub samples: Vec<Value>,
    pub extra: BTreeMap<String, Value>,
}

/// `--replay` of a case found by an enumeration: the enumeration is run again (seconds) and every violation
/// raised for exactly this case is printed, whether or not it is among the few witnesses kept per class.
pub static REPLAY_CASE: std::sync::OnceLock<Vec<String>> = std::sync::OnceLock::new();
pub static REPLAY_HITS: std::sync::atomic::AtomicU64 = std::sync::atomic::AtomicU64::new(0);

impl EnumOutcome {
    pub fn viol(&mut self, class: impl Into<String>, detail: impl Into<String>, case: Vec<String>) {
        let class = class.into();
        let detail = detail.into();
        if let Some(rc) = REPLAY_CASE.get() {
            if *rc == case {
                REPLAY_HITS.fetch_add(1, std::sync::atomic::Ordering::Relaxed);
                println!("  REPLAY-VIOLATION class={} {}", class, detail);
            }
        }
        let n = self.viol_counts.entry(class.clone()).or_insert(0);
        *n += 1;
        if *n <= 3 {
            self.viols.push(FoundViol {
                class,
                detail,
                init: "case".into(),
                depth: case.len(),
                path: case,
                reproduced: true,
            });
        }
    }
    pub fn merge(&mut self, o: EnumOutcome) {
        self.evaluations += o.evaluations;
        self.distinct_nontrivial += o.distinct_nontrivial;
        self.stats.merge(&o.stats);
        for (k, n) in o.viol_counts {
            *self.viol_counts.entry(k).or_insert(0) += n;
        }
        for v in o.viols {
            if self.viols.iter().filter(|x| x.class == v.class).count() < 3 {
                self.viols.push(v);
            }
        }
        for s in o.samples {
            if self.samples.len() < 6 {
                self.samples.push(s);
            }
        }
    }
}

#[derive(Default)]
pub struct Report {
    pub prop: String,
    pub tier: String,
    pub explorations: Vec<Outcome>,
    pub enumerations: Vec<EnumOutcome>,
    /// engine self-check failures (exit 2, never a verdict)
    pub machinery: Vec<String>,
    pub notes: Vec<String>,
    /// vacuity guards: (exploration name, counter) that must be > 0
    pub required: Vec<(String, String)>,
}

fn viol_json(v: &FoundViol) -> Value {
    json!({
        "class": v.class, "detail": v.detail, "init": v.init, "path": v.path,
        "depth": v.depth, "reproduced": v.reproduced,
    })
}

fn stats_json(s: &Stats) -> Value {
    let m: serde_json::Map<String, Value> = s.0.iter().map(|(k, v)| (k.to_string(), json!(v))).collect();
    Value::Object(m)
}

impl Report {
    pub fn to_json(&self) -> Value {
        let ex: Vec<Value> = self
            .explorations
            .iter()
            .map(|o| {
                json!({
                    "name": o.name, "states": o.states, "transitions": o.transitions,
                    "changing_transitions": o.changing_transitions,
                    "depth_completed": o.depth_completed, "exhaustive": o.exhaustive,
                    "cap_hit": o.cap_hit, "wall_s": o.wall_s, "alphabet": o.alphabet,
                    "stats": stats_json(&o.stats),
                    "viol_counts": o.viol_counts,
                    "viols": o.viols.iter().map(viol_json).collect::<Vec<_>>(),
                    "samples": o.samples,
                })
            })
            .collect();
        let en: Vec<Value> = self
            .enumerations
            .iter()
            .map(|o| {
                json!({
                    "name": o.name, "evaluations": o.evaluations,
                    "distinct_nontrivial": o.distinct_nontrivial, "rule": o.rule,
                    "expected": o.expected, "exhaustive": o.exhaustive, "wall_s": o.wall_s,
                    "stats": stats_json(&o.stats),
                    "viol_counts": o.viol_counts,
                    "viols": o.viols.iter().map(viol_json).collect::<Vec<_>>(),
                    "samples": o.samples,
                    "extra": o.extra,
                })
            })
            .collect();
        json!({
            "property": self.prop, "tier": self.tier,
            "explorations": ex, "enumerations": en,
            "machinery": self.machinery, "notes": self.notes,
        })
    }

    /// vacuity guards: a monitor counter of 0 in a configuration that claims to cover it is a machinery error
    pub fn check_required(&mut self) {
        for (name, counter) in self.required.clone() {
            let mut found = false;
            for o in &self.explorations {
                if o.name == name {
                    found = true;
                    // an exploration cut short by the check budget makes no coverage claim
                    if o.cap_hit.as_deref().map_or(false, |c| c.starts_with("check budget")) || (o.cap_hit.is_some() && o.depth_completed <= 1) {
                        continue;
                    }
                    if o.stats.get(&counter) == 0 && o.viol_counts.is_empty() {
                        self.machinery.push(format!("vacuity: counter {} is 0 in {}", counter, name));
                    }
                }
            }
            for o in &self.enumerations {
                if o.name == name {
                    found = true;
                    if o.stats.get(&counter) == 0 && o.viol_counts.is_empty() {
                        self.machinery.push(format!("vacuity: counter {} is 0 in {}", counter, name));
                    }
                }
            }
            if !found {
                self.machinery.push(format!("vacuity: exploration {} missing", name));
            }
        }
    }
}
