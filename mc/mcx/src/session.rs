//! E1: a session is a real `Cli` plus the terminal emulator fed with everything it wrote.
//! `apply` executes one event (a key = all its bytes, one `process_byte` call each; or an API call)
//! on a clone and returns an observation per API call for the monitors.

use crate::base::*;
use crate::refs::{render_arg, RArg};
use embedded_cli::cli::{Cli, CliBuilder, CliHandle};
use embedded_cli::command::RawCommand;
use embedded_cli::service::{Autocomplete, CommandProcessor, Help, ParseError, ProcessError};
use std::panic::{catch_unwind, AssertUnwindSafe};

pub type CliT = Cli<Sink, SinkErr, VBuf, VBuf>;

#[derive(Clone, Copy, Debug, PartialEq, Eq, Hash, PartialOrd, Ord)]
pub enum Key {
    Ch(char),
    Bs,
    Left,
    Right,
    Up,
    Down,
    Tab,
    Cr,
    Lf,
    /// a single raw byte
    Raw(u8),
    /// a byte sequence that must be ignored as a whole (CSI without a meaning, C0 control, lone ESC)
    Ignored(&'static [u8]),
}

impl Key {
    pub fn bytes(&self) -> Vec<u8> {
        match self {
            Key::Ch(c) => c.to_string().into_bytes(),
            Key::Bs => vec![8],
            Key::Left => b"\x1b[D".to_vec(),
            Key::Right => b"\x1b[C".to_vec(),
            Key::Up => b"\x1b[A".to_vec(),
            Key::Down => b"\x1b[B".to_vec(),
            Key::Tab => vec![9],
            Key::Cr => vec![b'\r'],
            Key::Lf => vec![b'\n'],
            Key::Raw(b) => vec![*b],
            Key::Ignored(b) => b.to_vec(),
        }
    }
    pub fn is_enter(&self) -> bool {
        matches!(self, Key::Cr | Key::Lf)
    }
}

/// What the command handler does when it is invoked.
#[derive(Clone, Copy, Debug, PartialEq, Eq, Hash, PartialOrd, Ord)]
pub enum HMode {
    Silent,
    /// one `write_str` of this text
    Write(&'static str),
    /// a script of writer calls
    Script(&'static [Piece]),
    Prompt(&'static str),
    /// handler reports a parse error (the library prints `error: unknown command`)
    ParseErr,
    /// handler reports one of the other parse errors (1 missing argument, 2 unparsable value, 3 unexpected
    /// argument, 4 unexpected long option, 5 unexpected short option with a multi-byte name): each is printed
    /// by its own sequence of writes in `Cli::process_error`
    ParseErrKind(u8),
    /// a script of writer calls, then the handler reports a parse error
    ScriptErr(&'static [Piece]),
    /// a script of writer calls and a prompt change
    ScriptPrompt(&'static [Piece], &'static str),
}

#[derive(Clone, Copy, Debug, PartialEq, Eq, Hash, PartialOrd, Ord)]
pub enum PieceKind {
    WriteStr,
    WritelnStr,
    UWrite,
    FmtWrite,
    /// `core::fmt::Write::write_char` for every character of the text (what `write!(w, "{}", c)` does)
    FmtChars,
    /// `ufmt::uwrite!(w, "{}", c)` for every character of the text
    UChars,
}

#[derive(Clone, Copy, Debug, PartialEq, Eq, Hash, PartialOrd, Ord)]
pub struct Piece {
    pub kind: PieceKind,
    pub text: &'static str,
}

#[derive(Clone, Debug, PartialEq, Eq, Hash)]
pub enum Ev {
    Key(Key, HMode),
    Write(&'static [Piece]),
    SetPrompt(&'static str),
}

impl Ev {
    pub fn render(&self) -> String {
        match self {
            Ev::Key(k, HMode::Silent) => format!("{:?}", k),
            Ev::Key(k, h) => format!("{:?}/{:?}", k, h),
            Ev::Write(p) => format!("write{:?}", p.iter().map(|p| (p.kind, p.text)).collect::<Vec<_>>()),
            Ev::SetPrompt(p) => format!("set_prompt({:?})", p),
        }
    }
}

#[derive(Clone, Debug, PartialEq, Eq)]
pub struct HCall {
    pub name: String,
    pub args: Vec<RArg>,
    /// some string handed to the handler was not well-formed UTF-8
    pub bad_utf8: bool,
}

#[derive(Clone, Debug, PartialEq, Eq, Hash)]
pub struct Snap {
    pub cb: usize,
    pub valid: usize,
    pub text: Vec<u8>,
    pub cursor: usize,
    pub hb: usize,
    pub hist: Vec<u8>,
    pub hcur: Option<usize>,
    pub dec: (u8, u8, ([u8; 4], u8, u8)),
    pub prompt: &'static str,
    /// a representation invariant is broken so badly that the fields above could not be read
    pub broken: Option<String>,
}

impl Snap {
    pub fn text_str(&self) -> Option<&str> {
        std::str::from_utf8(&self.text).ok()
    }
}

pub fn snap(cli: &CliT) -> Snap {
    let mut broken = None;
    let (cb, valid, text, cursor) = match cli.__verif_editor() {
        Some(ed) => {
            let (b, valid, cur) = ed.__verif_state();
            if valid > b.len() {
                broken = Some(format!("editor valid {} > buffer {}", valid, b.len()));
                (b.len(), valid, vec![], cur)
            } else {
                (b.len(), valid, b[..valid].to_vec(), cur)
            }
        }
        None => {
            broken = Some("editor missing (taken and not restored)".to_string());
            (0, 0, vec![], 0)
        }
    };
    #[cfg(feature = "history")]
    let (hb, hist, hcur) = {
        let (b, used, cur) = cli.__verif_history().__verif_state();
        if used > b.len() {
            broken = Some(format!("history used {} > buffer {}", used, b.len()));
            (b.len(), vec![], cur)
        } else {
            (b.len(), b[..used].to_vec(), cur)
        }
    };
    #[cfg(not(feature = "history"))]
    let (hb, hist, hcur) = (0usize, Vec::<u8>::new(), None);
    let dec = match cli.__verif_input_generator() {
        Some(g) => g.__verif_state(),
        None => {
            broken = Some("input generator missing".to_string());
            (0, 0, ([0; 4], 0, 0))
        }
    };
    Snap {
        cb,
        valid,
        text,
        cursor,
        hb,
        hist,
        hcur,
        dec,
        prompt: cli.__verif_prompt(),
        broken,
    }
}

/// canonical decoder state (DESIGN 3.2): accumulator bytes matter only while a sequence is pending
pub fn canon_dec(d: (u8, u8, ([u8; 4], u8, u8))) -> (u8, u8, [u8; 4], u8, u8) {
    let (flags, last, (buf, expected, partial)) = d;
    // last_byte matters only when it is ESC, CR or LF
    let last = if last == 0x1b || last == b'\r' || last == b'\n' { last } else { 0 };
    if expected == 0 {
        (flags, last, [0; 4], 0, 0)
    } else {
        let mut b = [0u8; 4];
        let p = (partial as usize).min(4);
        b[..p].copy_from_slice(&buf[..p]);
        (flags, last, b, expected, partial)
    }
}

#[derive(Clone, Debug, PartialEq, Eq)]
pub enum CallKind {
    Byte(u8),
    Write,
    SetPrompt,
}

#[derive(Clone, Debug)]
pub struct CallObs {
    pub kind: CallKind,
    pub ok: bool,
    pub panicked: Option<String>,
    pub sink: Vec<SinkEv>,
    pub handler: Vec<HCall>,
    pub after: Snap,
    pub term_line: String,
    pub term_col: usize,
    pub term_quiescent: bool,
    pub term_unknown: Option<String>,
    pub term_bad_utf8: bool,
    pub term_lfs: u32,
}

#[derive(Clone)]
pub struct Sess {
    pub cli: CliT,
    pub term: Term,
    /// reference view of the terminator pairing (A.9): 0, CR or LF still waiting for its other half.
    /// Carried by the harness (not read from the decoder) so that a pairing defect anywhere between
    /// `process_byte` and the decoder is visible to the dispatch monitor.
    pub pend: u8,
}

pub fn ref_pending_after(pend: u8, key: &Key) -> u8 {
    let term = match key {
        Key::Cr | Key::Raw(13) => 13,
        Key::Lf | Key::Raw(10) => 10,
        _ => return 0,
    };
    let other = if term == 13 { 10 } else { 13 };
    if pend == other {
        0
    } else {
        term
    }
}

pub struct H<'a> {
    pub log: &'a mut Vec<HCall>,
    pub mode: HMode,
}

fn lossy(s: &str) -> (String, bool) {
    match std::str::from_utf8(s.as_bytes()) {
        Ok(v) => (v.to_string(), false),
        Err(_) => (String::from_utf8_lossy(s.as_bytes()).into_owned(), true),
    }
}

pub fn record_call(raw: &RawCommand<'_>) -> HCall {
    let (name, mut bad) = lossy(raw.name());
    let mut args = vec![];
    for a in raw.args().args() {
        use embedded_cli::arguments::Arg;
        match &a {
            Arg::LongOption(s) | Arg::Value(s) => {
                if std::str::from_utf8(s.as_bytes()).is_err() {
                    bad = true;
                    let (l, _) = lossy(s);
                    args.push(match a {
                        Arg::LongOption(_) => RArg::Long(l),
                        _ => RArg::Value(l),
                    });
                    continue;
                }
            }
            Arg::ShortOption(c) => {
                let u = *c as u32;
                if u > 0x10FFFF || (0xD800..=0xDFFF).contains(&u) {
                    bad = true;
                    args.push(RArg::Short('\u{fffd}'));
                    continue;
                }
            }
            _ => {}
        }
        args.push(render_arg(&a));
    }
    HCall { name, args, bad_utf8: bad }
}

pub fn run_script(w: &mut embedded_cli::writer::Writer<'_, Sink, SinkErr>, script: &[Piece]) -> Result<(), SinkErr> {
    for p in script {
        match p.kind {
            PieceKind::WriteStr => w.write_str(p.text)?,
            PieceKind::WritelnStr => w.writeln_str(p.text)?,
            PieceKind::UWrite => {
                ufmt::uwrite!(w, "{}", p.text)?;
            }
            PieceKind::FmtWrite => {
                if core::fmt::Write::write_str(w, p.text).is_err() {
                    return Err(SinkErr);
                }
            }
            PieceKind::FmtChars => {
                for c in p.text.chars() {
                    if core::fmt::Write::write_fmt(w, format_args!("{}", c)).is_err() {
                        return Err(SinkErr);
                    }
                }
            }
            PieceKind::UChars => {
                for c in p.text.chars() {
                    ufmt::uwrite!(w, "{}", c)?;
                }
            }
        }
    }
    Ok(())
}

impl<'a> CommandProcessor<Sink, SinkErr> for H<'a> {
    fn process<'b>(
        &mut self,
        cli: &mut CliHandle<'_, Sink, SinkErr>,
        raw: RawCommand<'b>,
    ) -> Result<(), ProcessError<'b, SinkErr>> {
        self.log.push(record_call(&raw));
        match self.mode {
            HMode::Silent => {}
            HMode::Write(t) => cli.writer().write_str(t)?,
            HMode::Script(s) => run_script(cli.writer(), s)?,
            HMode::Prompt(p) => cli.set_prompt(p),
            HMode::ParseErr => return Err(ProcessError::ParseError(ParseError::UnknownCommand)),
            HMode::ParseErrKind(k) => {
                return Err(ProcessError::ParseError(match k {
                    1 => ParseError::MissingRequiredArgument { name: "<X>" },
                    2 => ParseError::ParseValueError { value: "vé", expected: "u8" },
                    3 => ParseError::UnexpectedArgument { value: "extra" },
                    4 => ParseError::UnexpectedLongOption { name: "zz" },
                    _ => ParseError::UnexpectedShortOption { name: 'é' },
                }))
            }
            HMode::ScriptErr(s) => {
                run_script(cli.writer(), s)?;
                return Err(ProcessError::ParseError(ParseError::UnknownCommand));
            }
            HMode::ScriptPrompt(s, p) => {
                cli.set_prompt(p);
                run_script(cli.writer(), s)?;
            }
        }
        Ok(())
    }
}

thread_local! {
    pub static LAST_PANIC: std::cell::RefCell<Option<String>> = std::cell::RefCell::new(None);
}

pub fn install_quiet_panic_hook() {
    std::panic::set_hook(Box::new(|info| {
        let msg = format!("{}", info);
        LAST_PANIC.with(|p| *p.borrow_mut() = Some(msg));
    }));
}

/// Same as `new_sess` but through the deprecated `Cli::new` constructor (default prompt).
#[allow(deprecated)]
pub fn new_sess_deprecated(cb: usize, hb: usize, short: bool) -> Sess {
    let mut sink = Sink::default();
    sink.short = short;
    let mut cli: CliT = Cli::new(sink, VBuf::new(cb), VBuf::new(hb)).expect("new cannot fail with a working sink");
    let mut term = Term::default();
    let evs = cli.__verif_writer_mut().take();
    term.feed_all(&sink_bytes(&evs));
    Sess { cli, term, pend: 0 }
}

pub fn new_sess(cb: usize, hb: usize, prompt: &'static str, short: bool) -> Sess {
    let mut sink = Sink::default();
    sink.short = short;
    let mut cli: CliT = CliBuilder::default()
        .writer(sink)
        .command_buffer(VBuf::new(cb))
        .history_buffer(VBuf::new(hb))
        .prompt(prompt)
        .build()
        .expect("build cannot fail with a working sink");
    let mut term = Term::default();
    let evs = cli.__verif_writer_mut().take();
    term.feed_all(&sink_bytes(&evs));
    Sess { cli, term, pend: 0 }
}

fn finish_call(n: &mut Sess, kind: CallKind, res: std::thread::Result<Result<(), SinkErr>>, handler: Vec<HCall>) -> CallObs {
    let sink = n.cli.__verif_writer_mut().take();
    n.term.feed_all(&sink_bytes(&sink));
    let (ok, panicked) = match res {
        Ok(Ok(())) => (true, None),
        Ok(Err(_)) => (false, None),
        Err(_) => (
            false,
            Some(LAST_PANIC.with(|p| p.borrow_mut().take()).unwrap_or_else(|| "panic".into())),
        ),
    };
    CallObs {
        kind,
        ok,
        panicked,
        sink,
        handler,
        after: snap(&n.cli),
        term_line: n.term.trimmed(),
        term_col: n.term.col,
        term_quiescent: n.term.quiescent(),
        term_unknown: n.term.unknown.clone(),
        term_bad_utf8: n.term.bad_utf8,
        term_lfs: n.term.lfs,
    }
}

/// Execute one event on `n` in place, one observation per API call.
pub fn apply_in_place<C: Autocomplete + Help>(n: &mut Sess, e: &Ev) -> Vec<CallObs> {
    let mut calls = vec![];
    match e {
        Ev::Key(k, mode) => {
            n.pend = ref_pending_after(n.pend, k);
            for b in k.bytes() {
                let mut log = vec![];
                let res = {
                    let mut h = H { log: &mut log, mode: *mode };
                    let cli = &mut n.cli;
                    catch_unwind(AssertUnwindSafe(|| cli.process_byte::<C, _>(b, &mut h)))
                };
                let obs = finish_call(n, CallKind::Byte(b), res, log);
                let stop = obs.panicked.is_some();
                calls.push(obs);
                if stop {
                    break;
                }
            }
        }
        Ev::Write(script) => {
            let res = {
                let cli = &mut n.cli;
                catch_unwind(AssertUnwindSafe(|| cli.write(|w| run_script(w, script))))
            };
            calls.push(finish_call(n, CallKind::Write, res, vec![]));
        }
        Ev::SetPrompt(p) => {
            let res = {
                let cli = &mut n.cli;
                catch_unwind(AssertUnwindSafe(|| cli.set_prompt(p)))
            };
            calls.push(finish_call(n, CallKind::SetPrompt, res, vec![]));
        }
    }
    calls
}

pub fn apply<C: Autocomplete + Help>(s: &Sess, e: &Ev) -> (Sess, Vec<CallObs>) {
    let mut n = s.clone();
    let calls = apply_in_place::<C>(&mut n, e);
    (n, calls)
}

pub fn struct_hash(cli: &CliT) -> u64 {
    // derived Hash over every field of the real Cli (editor, history, decoder - canonicalised -, prompt and
    // whatever a change adds); buffers contribute their size only, the sink nothing
    cli.__verif_struct_hash()
}

/// Canonical key of a session (DESIGN 3.2)
#[derive(Clone, Debug, PartialEq, Eq, Hash)]
pub struct SKey {
    pub text: Vec<u8>,
    pub cursor: usize,
    pub hist: Vec<u8>,
    pub hcur: Option<usize>,
    pub dec: (u8, u8, [u8; 4], u8, u8),
    pub prompt: &'static str,
    pub tline: String,
    pub tcol: usize,
    pub pend: u8,
    /// hash over every field of the real `Editor`, `History` and `InputGenerator` structs (buffers contribute their
    /// size only, dead decoder bytes are zeroed first):
    /// a field added to them by a change is part of the key without the harness knowing its name
    pub shash: u64,
    /// optional refinement: hash of the one-step behaviour (per event: results, sink bytes, handler
    /// calls, canonical successor). Separates states that the hooks cannot tell apart (state a change
    /// added to the library, e.g. a cache) as soon as the difference shows within one step.
    pub sig: u64,
}

pub fn skey(s: &Sess) -> SKey {
    let sn = snap(&s.cli);
    SKey {
        text: sn.text,
        cursor: sn.cursor,
        hist: sn.hist,
        hcur: sn.hcur,
        dec: canon_dec(sn.dec),
        prompt: sn.prompt,
        tline: s.term.trimmed(),
        tcol: s.term.col,
        pend: s.pend,
        shash: struct_hash(&s.cli),
        sig: 0,
    }
}

pub fn poison(s: &mut Sess, byte: u8) {
    if let Some(ed) = s.cli.__verif_editor_mut() {
        ed.__verif_poison(byte);
    }
    #[cfg(feature = "history")]
    s.cli.__verif_history_mut().__verif_poison(byte);
}

/// Fast path for enumerations: feed bytes, return handler calls, sink bytes and whether every call
/// returned Ok and nothing panicked. The terminal emulator is *not* updated.
pub fn feed<C: Autocomplete + Help>(n: &mut Sess, bytes: &[u8], mode: HMode) -> (Vec<HCall>, Vec<u8>, Result<(), String>) {
    let mut log = vec![];
    let mut status = Ok(());
    for &b in bytes {
        let res = {
            let mut h = H { log: &mut log, mode };
            let cli = &mut n.cli;
            catch_unwind(AssertUnwindSafe(|| cli.process_byte::<C, _>(b, &mut h)))
        };
        match res {
            Ok(Ok(())) => {}
            Ok(Err(_)) => {
                status = Err("sink error".to_string());
            }
            Err(_) => {
                status = Err(format!(
                    "panic: {}",
                    LAST_PANIC.with(|p| p.borrow_mut().take()).unwrap_or_default()
                ));
                break;
            }
        }
    }
    let out = sink_bytes(&n.cli.__verif_writer_mut().take());
    (log, out, status)
}

/// behaviour signature of a session to the given depth under the given events (see `SKey::sig`):
/// depth 1 hashes, per event, the call results, sink bytes, handler calls and the canonical successor;
/// depth k > 1 additionally hashes the depth k-1 signature of every successor
pub fn behaviour_sig<C: Autocomplete + Help>(s: &Sess, events: &[Ev], with_screen: bool, depth: u8) -> u64 {
    use std::hash::{Hash, Hasher};
    let mut h = std::collections::hash_map::DefaultHasher::new();
    for e in events {
        let (n, calls) = apply::<C>(s, e);
        for c in &calls {
            c.ok.hash(&mut h);
            c.panicked.is_some().hash(&mut h);
            sink_bytes(&c.sink).hash(&mut h);
            for hc in &c.handler {
                hc.name.hash(&mut h);
                hc.args.hash(&mut h);
            }
        }
        let mut k = skey(&n);
        if !with_screen {
            k.tline.clear();
            k.tcol = 0;
        }
        k.hash(&mut h);
        if depth > 1 && calls.iter().all(|c| c.panicked.is_none()) {
            behaviour_sig::<C>(&n, events, with_screen, depth - 1).hash(&mut h);
        }
    }
    h.finish()
}
