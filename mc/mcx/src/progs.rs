//! Interface between the generated declaration crates (progs-*) and the E4 engine.

use crate::base::SinkErr;
use crate::session::CliT;
use embedded_cli::service::{Autocomplete, ParseError};

#[derive(Clone, Debug, PartialEq, Eq)]
pub enum ParseOut {
    /// Debug rendering of the parsed value
    Ok(String),
    Err(PErr),
}

#[derive(Clone, Debug, PartialEq, Eq)]
pub enum PErr {
    MissingRequired(String),
    ParseValue(String, String),
    UnexpectedArgument(String),
    UnexpectedLong(String),
    UnexpectedShort(char),
    UnknownCommand,
    Other(String),
}

impl ParseOut {
    pub fn from_err(e: ParseError<'_>) -> Self {
        ParseOut::Err(match e {
            ParseError::MissingRequiredArgument { name } => PErr::MissingRequired(name.to_string()),
            ParseError::ParseValueError { value, expected } => PErr::ParseValue(value.to_string(), expected.to_string()),
            ParseError::UnexpectedArgument { value } => PErr::UnexpectedArgument(value.to_string()),
            ParseError::UnexpectedLongOption { name } => PErr::UnexpectedLong(name.to_string()),
            ParseError::UnexpectedShortOption { name } => PErr::UnexpectedShort(name),
            ParseError::UnknownCommand => PErr::UnknownCommand,
            other => PErr::Other(format!("{:?}", other)),
        })
    }
}

impl PErr {
    /// the payload that must appear in the `error:` line
    pub fn payload(&self) -> Vec<String> {
        match self {
            PErr::MissingRequired(n) => vec![n.clone()],
            PErr::ParseValue(v, t) => vec![v.clone(), t.clone()],
            PErr::UnexpectedArgument(v) => vec![v.clone()],
            PErr::UnexpectedLong(n) => vec![format!("--{}", n)],
            PErr::UnexpectedShort(c) => vec![format!("-{}", c)],
            PErr::UnknownCommand => vec!["unknown command".to_string()],
            PErr::Other(s) => vec![s.clone()],
        }
    }
}

pub struct Prog {
    pub id: &'static str,
    /// feed bytes to a Cli with this program as command set and typed handler; the handler logs `{:?}`
    pub run: fn(&mut CliT, &[u8], &mut Vec<String>) -> Result<(), SinkErr>,
    /// FromRaw::parse on (name, NUL-joined argument tokens, no-arguments flag)
    pub parse: fn(&str, &str, bool) -> ParseOut,
    /// derived Autocomplete::autocomplete called directly: (continuation, partial)
    pub complete: fn(&str, &mut [u8]) -> (Option<String>, bool),
}

#[cfg(feature = "autocomplete")]
pub fn complete_with<C: Autocomplete>(word: &str, buf: &mut [u8]) -> (Option<String>, bool) {
    use embedded_cli::autocomplete::{Autocompletion, Request};
    let Some(req) = Request::from_input(word) else {
        return (None, false);
    };
    let mut a = Autocompletion::new(buf);
    C::autocomplete(req, &mut a);
    (a.autocompleted().map(|s| String::from_utf8_lossy(s.as_bytes()).into_owned()), a.is_partial())
}

#[cfg(not(feature = "autocomplete"))]
pub fn complete_with<C: Autocomplete>(_word: &str, _buf: &mut [u8]) -> (Option<String>, bool) {
    (None, false)
}
