//! Layer-synchronous, parallel, explicit-state breadth-first search over a real implementation object.
//!
//! * the transition function is supplied by a `Model` and *executes the implementation*;
//! * de-duplication stores the full canonical key (no hash compaction);
//! * predecessor = smallest (parent id, event index) so paths are stable and shortest;
//! * caps (states / wall / RSS) end the search with `exhaustive = false` and the last completed depth.

use rayon::prelude::*;
use std::collections::{BTreeMap, HashMap};
use std::fmt::Debug;
use std::hash::Hash;
use std::time::Instant;

#[derive(Clone, Debug)]
pub struct Viol {
    /// monitor-computed signature of *what* failed, e.g. `C06/cursor-after-write`
    pub class: String,
    pub detail: String,
}

impl Viol {
    pub fn new(class: impl Into<String>, detail: impl Into<String>) -> Self {
        Viol {
            class: class.into(),
            detail: detail.into(),
        }
    }
}

#[derive(Clone, Debug, Default)]
pub struct Stats(pub BTreeMap<&'static str, u64>);

impl Stats {
    pub fn hit(&mut self, k: &'static str) {
        *self.0.entry(k).or_insert(0) += 1;
    }
    pub fn add(&mut self, k: &'static str, n: u64) {
        *self.0.entry(k).or_insert(0) += n;
    }
    pub fn merge(&mut self, o: &Stats) {
        for (k, v) in &o.0 {
            *self.0.entry(k).or_insert(0) += v;
        }
    }
    pub fn get(&self, k: &str) -> u64 {
        self.0.get(k).copied().unwrap_or(0)
    }
}

pub struct StepOut<S> {
    /// successor (None: do not expand, e.g. after a violation that leaves the state meaningless)
    pub next: Option<S>,
    /// further successors of the same event under environment deviations (sub-event id > 0, e.g. a
    /// sink fault at call k); each is an execution of its own and is counted as a transition
    pub extra: Vec<(u16, S)>,
    pub viols: Vec<Viol>,
}

impl<S> StepOut<S> {
    pub fn new(next: Option<S>, viols: Vec<Viol>) -> Self {
        StepOut { next, extra: vec![], viols }
    }
}

pub trait Model: Sync {
    type State: Clone + Send + Sync;
    type Key: Hash + Eq + Clone + Send + Sync + Debug;
    type Event: Clone + Debug + Send + Sync;

    fn name(&self) -> String;
    fn inits(&self) -> Vec<(String, Self::State)>;
    fn events(&self) -> Vec<Self::Event>;
    fn key(&self, s: &Self::State) -> Self::Key;
    fn step(&self, s: &Self::State, e: &Self::Event, stats: &mut Stats) -> StepOut<Self::State>;
    /// human/JSON rendering of an event for replay files
    fn render_event(&self, e: &Self::Event) -> String {
        format!("{:?}", e)
    }
    /// rendering of a sub-event id (environment deviation) for paths
    fn render_sub(&self, sub: u16) -> String {
        format!("!dev{}", sub)
    }
    /// event paths (from the first initial state) that build the additional initial states; every step
    /// of them is executed under the monitors before the search starts ("checked prefill"), so a defect
    /// that shows *while* a large state is being built is reported, not baked into a start state
    fn checked_prefill(&self) -> Vec<(String, Vec<Self::Event>)> {
        vec![]
    }
}

fn render_step<M: Model>(m: &M, events: &[M::Event], e: u16, sub: u16) -> String {
    if sub == 0 {
        m.render_event(&events[e as usize])
    } else {
        format!("{} {}", m.render_event(&events[e as usize]), m.render_sub(sub))
    }
}

/// parse the sub-event id back out of a rendered path step
fn split_step(r: &str) -> (&str, Option<&str>) {
    match r.rfind(" !") {
        Some(i) => (&r[..i], Some(&r[i + 1..])),
        None => (r, None),
    }
}

#[derive(Clone, Debug)]
pub struct Caps {
    pub max_states: usize,
    pub max_wall_s: f64,
    pub max_rss_mb: usize,
    pub max_depth: usize,
}

impl Default for Caps {
    fn default() -> Self {
        Caps {
            max_states: 6_000_000,
            max_wall_s: 900.0,
            max_rss_mb: 24_000,
            max_depth: usize::MAX,
        }
    }
}

#[derive(Clone, Debug)]
pub struct FoundViol {
    pub class: String,
    pub detail: String,
    pub init: String,
    pub path: Vec<String>,
    pub depth: usize,
    pub reproduced: bool,
}

#[derive(Clone, Debug, Default)]
pub struct Outcome {
    pub name: String,
    pub states: u64,
    pub transitions: u64,
    pub depth_completed: usize,
    pub exhaustive: bool,
    pub cap_hit: Option<String>,
    pub wall_s: f64,
    pub stats: Stats,
    /// violation class -> number of violating transitions
    pub viol_counts: BTreeMap<String, u64>,
    /// first few per class, with replayable paths
    pub viols: Vec<FoundViol>,
    pub samples: Vec<Vec<String>>,
    /// number of events in the alphabet
    pub alphabet: usize,
    /// distinct successor-key fan-out summary: number of transitions that changed the state
    pub changing_transitions: u64,
}

/// `MCX_JOURNAL=<file>`: append, before every transition, the path and event about to be executed
/// (used by the driver to recover a replay when the library aborts the process).
pub fn journal_file() -> Option<std::sync::Arc<std::sync::Mutex<std::fs::File>>> {
    static J: std::sync::OnceLock<Option<std::sync::Arc<std::sync::Mutex<std::fs::File>>>> = std::sync::OnceLock::new();
    J.get_or_init(|| {
        std::env::var("MCX_JOURNAL").ok().and_then(|p| {
            std::fs::OpenOptions::new().create(true).append(true).open(p).ok().map(|f| std::sync::Arc::new(std::sync::Mutex::new(f)))
        })
    })
    .clone()
}

pub fn rss_mb() -> usize {
    if cfg!(miri) {
        return 0;
    }
    if let Ok(s) = std::fs::read_to_string("/proc/self/statm") {
        if let Some(r) = s.split_whitespace().nth(1) {
            if let Ok(p) = r.parse::<usize>() {
                return p * 4096 / (1024 * 1024);
            }
        }
    }
    0
}

const KEEP_PER_CLASS: usize = 3;

/// Wall-clock budget of the whole check run (all explorations of one engine process). On the unchanged tree
/// the quick tier stays far below it; it exists for trees in which the state space no longer closes (a change
/// added a counter to the library: the derived struct hash puts it into the key and every closure would run
/// into its own cap, one after the other). When it is used up every further exploration gets a few seconds
/// and reports `exhaustive: false` with the cap "check budget".
pub static BUDGET_END: std::sync::OnceLock<Instant> = std::sync::OnceLock::new();
pub const BUDGET_GRACE_S: f64 = 3.0;

pub fn set_budget(secs: f64) {
    let _ = BUDGET_END.set(Instant::now() + std::time::Duration::from_secs_f64(secs));
}

/// (wall cap for an exploration starting now, whether the check budget is what limits it)
fn budgeted_wall(caps: &Caps) -> (f64, bool) {
    match BUDGET_END.get() {
        None => (caps.max_wall_s, false),
        Some(end) => {
            let left = end.saturating_duration_since(Instant::now()).as_secs_f64().max(BUDGET_GRACE_S);
            if left < caps.max_wall_s {
                (left, true)
            } else {
                (caps.max_wall_s, false)
            }
        }
    }
}

struct Cand<K, S> {
    ev: u16,
    sub: u16,
    key: K,
    state: S,
}

struct Expanded<K, S> {
    cands: Vec<Cand<K, S>>,
    viols: Vec<(u16, Viol)>,
    stats: Stats,
    transitions: u64,
    changing: u64,
}

pub fn explore<M: Model>(m: &M, caps: &Caps, seed: u64) -> Outcome {
    let t0 = Instant::now();
    let (max_wall_s, by_budget) = budgeted_wall(caps);
    // resident memory is a property of the process: what earlier explorations left behind (freed, but kept by
    // the allocator) must not count against this one
    let rss_base = rss_mb();
    let events = m.events();
    assert!(events.len() < u16::MAX as usize);
    let mut out = Outcome {
        name: m.name(),
        alphabet: events.len(),
        ..Default::default()
    };
    let mut seen: HashMap<M::Key, u32> = HashMap::new();
    // (parent id, event index); parent == u32::MAX for initial states (event index = init index)
    let mut parents: Vec<(u32, u16, u16)> = vec![];
    let inits = m.inits();
    let mut frontier: Vec<(u32, M::State)> = vec![];
    for (i, (_, s)) in inits.iter().enumerate() {
        let k = m.key(s);
        if !seen.contains_key(&k) {
            let id = parents.len() as u32;
            seen.insert(k, id);
            parents.push((u32::MAX, i as u16, 0));
            frontier.push((id, s.clone()));
        }
    }
    // checked prefill (see `Model::checked_prefill`)
    let mut prefill_viols: Vec<FoundViol> = vec![];
    for (_label, path) in m.checked_prefill() {
        let Some((init_label, s0)) = inits.first() else { break };
        let mut s = s0.clone();
        for (i, e) in path.iter().enumerate() {
            let so = m.step(&s, e, &mut out.stats);
            out.transitions += 1;
            for v in so.viols {
                *out.viol_counts.entry(v.class.clone()).or_insert(0) += 1;
                if prefill_viols.iter().filter(|x| x.class == v.class).count() < KEEP_PER_CLASS {
                    // replay the prefix twice from the initial state: it must reproduce identically
                    let mut ok = true;
                    for _round in 0..2 {
                        let mut r = s0.clone();
                        let mut st = Stats::default();
                        let mut hit = false;
                        for (j, e2) in path[..=i].iter().enumerate() {
                            let so2 = m.step(&r, e2, &mut st);
                            if j == i {
                                hit = so2.viols.iter().any(|x| x.class == v.class);
                            } else {
                                match so2.next {
                                    Some(n) => r = n,
                                    None => break,
                                }
                            }
                        }
                        ok &= hit;
                    }
                    prefill_viols.push(FoundViol {
                        class: v.class.clone(),
                        detail: v.detail.clone(),
                        init: init_label.clone(),
                        path: path[..=i].iter().map(|e| m.render_event(e)).collect(),
                        depth: i + 1,
                        reproduced: ok,
                    });
                }
            }
            match so.next {
                Some(n) => s = n,
                None => break,
            }
        }
    }
    let mut raw_viols: Vec<(u32, u16, Viol)> = vec![];
    let mut depth = 0usize;
    let mut exhaustive = true;
    while !frontier.is_empty() {
        if depth >= caps.max_depth {
            exhaustive = false;
            out.cap_hit = Some(format!("depth cap {}", caps.max_depth));
            break;
        }
        if out.viol_counts.values().sum::<u64>() > 20_000 {
            // the tree is broken in this configuration; more witnesses add nothing
            exhaustive = false;
            out.cap_hit = Some("stopped after 20000 violating transitions".to_string());
            break;
        }
        if seen.len() > caps.max_states {
            exhaustive = false;
            out.cap_hit = Some(format!("state cap {}", caps.max_states));
            break;
        }
        if t0.elapsed().as_secs_f64() > max_wall_s {
            exhaustive = false;
            out.cap_hit = Some(if by_budget { format!("check budget (wall cap {:.0} s left for this exploration)", max_wall_s) } else { format!("wall cap {} s", caps.max_wall_s) });
            break;
        }
        let rss = rss_mb();
        if rss.saturating_sub(rss_base) > caps.max_rss_mb || rss > caps.max_rss_mb + caps.max_rss_mb / 2 {
            exhaustive = false;
            out.cap_hit = Some(format!("rss cap {} MB (at {} MB, {} MB when this exploration started)", caps.max_rss_mb, rss, rss_base));
            break;
        }
        let seen_ref = &seen;
        let events_ref = &events;
        let journal = journal_file();
        let expand_one = |(sid, s): &(u32, M::State)| {
                if let Some(j) = &journal {
                    // journal mode (single-threaded rerun after an abort): record what is about to run
                    use std::io::Write;
                    let mut id = *sid;
                    let mut evs: Vec<String> = vec![];
                    let init;
                    loop {
                        let (p, e, sub) = parents[id as usize];
                        if p == u32::MAX {
                            init = inits[e as usize].0.clone();
                            break;
                        }
                        evs.push(render_step(m, events_ref, e, sub));
                        id = p;
                    }
                    evs.reverse();
                    let mut f = j.lock().unwrap();
                    let _ = writeln!(f, "STATE\t{}\t{}\t{}", m.name(), init, serde_json::to_string(&evs).unwrap());
                }
                let mut ex = Expanded {
                    cands: vec![],
                    viols: vec![],
                    stats: Stats::default(),
                    transitions: 0,
                    changing: 0,
                };
                let own = m.key(s);
                for (ei, e) in events_ref.iter().enumerate() {
                    if let Some(j) = &journal {
                        use std::io::Write;
                        let mut f = j.lock().unwrap();
                        let _ = writeln!(f, "EV\t{}", m.render_event(e));
                    }
                    let so = m.step(s, e, &mut ex.stats);
                    ex.transitions += 1;
                    for v in so.viols {
                        ex.viols.push((ei as u16, v));
                    }
                    let mut succ: Vec<(u16, M::State)> = vec![];
                    if let Some(n) = so.next {
                        succ.push((0, n));
                    }
                    ex.transitions += so.extra.len() as u64;
                    succ.extend(so.extra);
                    for (sub, n) in succ {
                        let k = m.key(&n);
                        if k != own {
                            ex.changing += 1;
                            if !seen_ref.contains_key(&k) {
                                ex.cands.push(Cand {
                                    ev: ei as u16,
                                    sub,
                                    key: k,
                                    state: n,
                                });
                            }
                        }
                    }
                }
                ex
            };
        let expanded: Vec<Expanded<M::Key, M::State>> = if journal.is_some() {
            frontier.iter().map(expand_one).collect()
        } else {
            frontier.par_iter().map(expand_one).collect()
        };
        let mut next: Vec<(u32, M::State)> = vec![];
        for ((pid, _), ex) in frontier.iter().zip(expanded.into_iter()) {
            out.transitions += ex.transitions;
            out.changing_transitions += ex.changing;
            out.stats.merge(&ex.stats);
            for (ei, v) in ex.viols {
                *out.viol_counts.entry(v.class.clone()).or_insert(0) += 1;
                let kept = raw_viols.iter().filter(|(_, _, x)| x.class == v.class).count();
                if kept < KEEP_PER_CLASS {
                    raw_viols.push((*pid, ei, v));
                }
            }
            for c in ex.cands {
                if !seen.contains_key(&c.key) {
                    let id = parents.len() as u32;
                    seen.insert(c.key, id);
                    parents.push((*pid, c.ev, c.sub));
                    next.push((id, c.state));
                }
            }
        }
        depth += 1;
        out.depth_completed = depth;
        frontier = next;
    }
    out.states = seen.len() as u64;
    out.exhaustive = exhaustive;

    let path_of = |mut id: u32| -> (usize, Vec<(u16, u16)>) {
        let mut evs = vec![];
        loop {
            let (p, e, sub) = parents[id as usize];
            if p == u32::MAX {
                evs.reverse();
                return (e as usize, evs);
            }
            evs.push((e, sub));
            id = p;
        }
    };

    out.viols.extend(prefill_viols);
    // replay every kept violation twice from the initial state: it must reproduce identically
    for (pid, ei, v) in &raw_viols {
        let (ii, mut evs) = path_of(*pid);
        evs.push((*ei, 0));
        let mut ok = true;
        for _round in 0..2 {
            let mut s = inits[ii].1.clone();
            let mut st = Stats::default();
            let mut hit = false;
            for (i, (e, sub)) in evs.iter().enumerate() {
                let so = m.step(&s, &events[*e as usize], &mut st);
                if i + 1 == evs.len() {
                    hit = so.viols.iter().any(|x| x.class == v.class);
                } else {
                    let nx = if *sub == 0 { so.next } else { so.extra.into_iter().find(|(x, _)| x == sub).map(|(_, n)| n) };
                    match nx {
                        Some(n) => s = n,
                        None => break,
                    }
                }
            }
            ok &= hit;
        }
        out.viols.push(FoundViol {
            class: v.class.clone(),
            detail: v.detail.clone(),
            init: inits[ii].0.clone(),
            path: evs.iter().map(|(e, sub)| render_step(m, &events, *e, *sub)).collect(),
            depth: evs.len(),
            reproduced: ok,
        });
    }

    // samples: a few explored paths (seed only selects which)
    let n = parents.len() as u64;
    if n > 0 {
        let mut x = seed.wrapping_mul(6364136223846793005).wrapping_add(1442695040888963407);
        for _ in 0..3 {
            x = x.wrapping_mul(6364136223846793005).wrapping_add(1442695040888963407);
            let id = ((x >> 33) % n) as u32;
            let (ii, evs) = path_of(id);
            let mut p = vec![format!("init:{}", inits[ii].0)];
            p.extend(evs.iter().map(|(e, sub)| render_step(m, &events, *e, *sub)));
            out.samples.push(p);
        }
        // always include the deepest state
        let (ii, evs) = path_of((n - 1) as u32);
        let mut p = vec![format!("init:{}", inits[ii].0)];
        p.extend(evs.iter().map(|(e, sub)| render_step(m, &events, *e, *sub)));
        out.samples.push(p);
    }
    out.wall_s = t0.elapsed().as_secs_f64();
    out
}

/// Replay request (set once from the command line): exploration name, initial-state label, rendered events.
pub static REPLAY: std::sync::OnceLock<(String, String, Vec<String>)> = std::sync::OnceLock::new();

/// In replay mode: re-execute the recorded path on model `m` if it is the recorded exploration.
/// Returns None when not in replay mode (the caller should explore).
pub fn maybe_replay<M: Model>(m: &M) -> Option<Outcome> {
    let (name, init, path) = REPLAY.get()?;
    let mut out = Outcome { name: m.name(), ..Default::default() };
    if &m.name() != name {
        out.name = String::new(); // marker: skipped
        return Some(out);
    }
    let mut events = m.events();
    for (_, p) in m.checked_prefill() {
        for e in p {
            if !events.iter().any(|x| m.render_event(x) == m.render_event(&e)) {
                events.push(e);
            }
        }
    }
    let inits = m.inits();
    let Some((_, s0)) = inits.iter().find(|(l, _)| l == init) else {
        println!("REPLAY-ERROR unknown initial state {:?}", init);
        return Some(out);
    };
    let mut s = s0.clone();
    let mut st = Stats::default();
    println!("REPLAY exploration={:?} init={:?}", name, init);
    for (i, r) in path.iter().enumerate() {
        let (base, subr) = split_step(r);
        let (base, subr) = if events.iter().any(|e| m.render_event(e) == *r) { (r.as_str(), None) } else { (base, subr) };
        let Some(e) = events.iter().find(|e| m.render_event(e) == base) else {
            println!("REPLAY-ERROR event {:?} is not in the alphabet of {:?}", r, name);
            return Some(out);
        };
        let so = m.step(&s, e, &mut st);
        println!("  step {:>3} {:<28} -> {:?}", i + 1, r, so.next.as_ref().map(|n| m.key(n)));
        for v in &so.viols {
            println!("  REPLAY-VIOLATION class={} {}", v.class, v.detail);
            *out.viol_counts.entry(v.class.clone()).or_insert(0) += 1;
        }
        let nx = match subr {
            None => so.next,
            Some(sr) => so.extra.into_iter().find(|(x, _)| m.render_sub(*x) == sr).map(|(_, n)| n),
        };
        match nx {
            Some(n) => s = n,
            None => break,
        }
    }
    out.transitions = path.len() as u64;
    out.states = 1;
    Some(out)
}
