use crate::e3::*;
use crate::report::{EnumOutcome, Report};

fn push(rep: &mut Report, o: EnumOutcome) {
    eprintln!(
        "  {}: evaluations={} nontrivial={} exhaustive={} viol={:?} {:.2}s",
        o.name, o.evaluations, o.distinct_nontrivial, o.exhaustive, o.viol_counts, o.wall_s
    );
    if !o.exhaustive {
        rep.machinery.push(format!("enumeration {} covered {} of {:?} cases", o.name, o.evaluations, o.expected));
    }
    rep.enumerations.push(o);
}

pub fn c07(rep: &mut Report, tier: &str) {
    let quick = tier == "quick";
    push(rep, c07_lines(&C07_SIGMA, if quick { 9 } else { 11 }));
    // bytes that are white space in Latin-1 occur inside ordinary multi-byte characters
    push(rep, c07_lines(&C07_SIGMA2, if quick { 7 } else { 9 }));
    // ASCII specials without a role in the rules (round 11)
    push(rep, c07_lines(&C07_SIGMA3, if quick { 7 } else { 8 }));
    push(rep, c07_typed(if quick { 6 } else { 8 }));
    push(rep, c07_roundtrip(if quick { 3 } else { 4 }, 2));
    push(rep, c07_roundtrip(2, if quick { 3 } else { 4 }));
    // boundary-relevant strings at every offset of long lines (word-at-a-time scans, chunked copies)
    push(rep, crate::e3_long::c07_long(if quick { 4 } else { 6 }, if quick { 48 } else { 80 }));
    push(rep, crate::e3_long::c07_roundtrip_long(if quick { 40 } else { 72 }));
    push(rep, crate::e3_long::c07_many_tokens(if quick { 3 } else { 4 }));
}

pub fn c08(rep: &mut Report, tier: &str) {
    let quick = tier == "quick";
    push(rep, c08_lists(&C08_SIGMA, 3, 3));
    push(rep, c08_lists(&C08_SIGMA, 2, if quick { 3 } else { 4 }));
    // boundary scalars of every encoded length (first/last code point of each length)
    push(rep, c08_lists(&C08_BOUNDARY, 2, if quick { 2 } else { 3 }));
    push(rep, c08_lists(&C08_BOUNDARY, 3, if quick { 1 } else { 2 }));
    push(rep, c08_typed(2, if quick { 2 } else { 3 }));
    if !quick {
        push(rep, c08_typed(3, 2));
    }
    // many dashes, long names, long clusters, late positions
    push(rep, c08_lists(&["-", "a", "é"], 2, if quick { 5 } else { 6 }));
    push(rep, c08_lists(&["-", "a"], 3, 4));
    // ASCII classes a classifier could treat specially (digits, '=', upper case, punctuation): seed C08-r10-2
    push(rep, c08_lists(&C08_ASCII, 2, if quick { 4 } else { 5 }));
    push(rep, c08_lists(&C08_ASCII, 3, if quick { 2 } else { 3 }));
    // every printable ASCII character at every position of a single short token
    push(rep, c08_lists(&C08_PRINTABLE, 1, if quick { 3 } else { 4 }));
    push(rep, crate::e3_long::c08_long());
    push(rep, crate::e3_long::c08_many_tokens());
}

pub fn c17(rep: &mut Report, tier: &str) {
    push(rep, c17_utils());
    let _ = tier;
    push(rep, c17_sessions(&NEIGHBOURS));
}
