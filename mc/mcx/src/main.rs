use mcx::*;

use report::Report;

fn main() {
    let args: Vec<String> = std::env::args().collect();
    if args.len() < 5 {
        eprintln!("usage: mcx <property> <quick|thorough> <seed> <out.json>");
        std::process::exit(2);
    }
    let prop = args[1].clone();
    let tier = args[2].clone();
    let seed: u64 = args[3].parse().unwrap_or(0);
    let out = args[4].clone();
    if let Some(pos) = args.iter().position(|a| a == "--replay") {
        let txt = std::fs::read_to_string(&args[pos + 1]).expect("read replay file");
        let j: serde_json::Value = serde_json::from_str(&txt).expect("parse replay file");
        let name = j["exploration"].as_str().unwrap_or("").to_string();
        let init = j["init"].as_str().unwrap_or("initial").to_string();
        let path: Vec<String> = j["path"].as_array().map(|a| a.iter().map(|x| x.as_str().unwrap_or("").to_string()).collect()).unwrap_or_default();
        if init == "case" {
            println!("REPLAY case={:?} (the enumerations of this check are run again; violations of this case are printed)", path);
            report::REPLAY_CASE.set(path.clone()).ok();
        }
        bfs::REPLAY.set((name, init, path)).ok();
    }
    e3::SEED.store(seed, std::sync::atomic::Ordering::Relaxed);
    session::install_quiet_panic_hook();
    bfs::set_budget(if tier == "quick" { 150.0 } else { 4.0 * 3600.0 });
    let mut rep = Report { prop: prop.clone(), tier: tier.clone(), ..Default::default() };
    match prop.as_str() {
        "C01" => checks_e1::c01(&mut rep, &tier, seed, "C01"),
        "C02" => checks_e2::c02(&mut rep, &tier, seed),
        "C03" => checks_e1::c03(&mut rep, &tier, seed),
        "C03M" => checks_e1::c03_miri(&mut rep, seed),
        #[cfg(feature = "sr")]
        "XCHECK" => {
            // auxiliary: state counts of the home-made BFS vs stateright on small closures
            use mcx::checks_e1::*;
            use mcx::e1::*;
            use mcx::session::*;
            let caps = caps("quick");
            let mut run = |name: String, a: u64, b: u64, bad: bool| {
                eprintln!("  xcheck {}: bfs={} stateright={} violation={}", name, a, b, bad);
                rep.notes.push(format!("xcheck {} bfs={} stateright={}", name, a, b));
                if a != b || bad {
                    rep.machinery.push(format!("cross-check mismatch in {}: bfs {} states, stateright {} (violation found: {})", name, a, b, bad));
                }
            };
            // C05 editor closure
            let alphabet = vec![ch('a'), ch('b'), ch('é'), ch('中'), ch('𝄞'), k(Key::Bs), k(Key::Left), k(Key::Right)];
            for cb in [3usize, 5] {
                let cfg = base_cfg("C05", format!("editor cb={} hb=0 raw", cb), cb, 0, alphabet.clone(), Mon { editor: true, invariants: true, ..Default::default() });
                let m = SessModel::<embedded_cli::command::RawCommand<'static>>::new(cfg);
                let (a, b, bad) = mcx::xcheck::cross_check(m, &caps);
                run(format!("C05 editor cb={}", cb), a, b, bad);
            }
            // C10 history closure
            let alphabet = vec![ch('a'), ch('é'), k(Key::Bs), k(Key::Left), k(Key::Lf), k(Key::Up), k(Key::Down)];
            for (cb, hb) in [(2usize, 5usize), (3, 6)] {
                let cfg = base_cfg("C10", format!("history cb={} hb={}", cb, hb), cb, hb, alphabet.clone(), Mon { history: true, invariants: true, ..Default::default() });
                let m = SessModel::<embedded_cli::command::RawCommand<'static>>::new(cfg);
                let (a, b, bad) = mcx::xcheck::cross_check(m, &caps);
                run(format!("C10 history cb={} hb={}", cb, hb), a, b, bad);
            }
            // C04 / C02 decoder closures
            let (a, b, bad) = mcx::xcheck::cross_check(mcx::e2::DecUnitModel { units: mcx::e2::key_units(false), prop: "C04" }, &caps);
            run("C04 key units".into(), a, b, bad);
            let (a, b, bad) = mcx::xcheck::cross_check(mcx::e2::AccModel { bytes: (0u8..=255).collect(), prop: "C02", refine: true }, &caps);
            run("C02 Utf8Accum".into(), a, b, bad);
            // C06 screen closure (terminal emulator in the key)
            let cfg = base_cfg("C06", "screen cb=3 hb=4".to_string(), 3, 4, c06_alphabet(), Mon { term: true, invariants: true, ..Default::default() });
            let mut cfg = cfg;
            cfg.names = mcx::cmds::cmd4_names();
            let m = SessModel::<mcx::cmds::Cmd4>::new(cfg);
            let (a, b, bad) = mcx::xcheck::cross_check(m, &caps);
            run("C06 screen cb=3 hb=4".into(), a, b, bad);
        }
        "C04" => checks_e2::c04(&mut rep, &tier, seed),
        "C05" => checks_e1::c05(&mut rep, &tier, seed, "C05"),
        "C06" => checks_e1::c06(&mut rep, &tier, seed, "C06"),
        "C07" => checks_e3::c07(&mut rep, &tier),
        "C08" => checks_e3::c08(&mut rep, &tier),
        "C16" => checks_e1::c16(&mut rep, &tier, seed),
        "C17" => checks_e3::c17(&mut rep, &tier),
        "C10" => checks_e1::c10(&mut rep, &tier, seed),
        "C13" => checks_e1::c13(&mut rep, &tier, seed),
        "C14" => checks_e1::c14(&mut rep, &tier, seed),
        "C15" => checks_e1::c06(&mut rep, &tier, seed, "C15"),
        _ => {
            eprintln!("unknown property {}", prop);
            std::process::exit(2);
        }
    }
    if bfs::REPLAY.get().is_none() {
        rep.check_required();
    }
    if report::REPLAY_CASE.get().is_some() {
        println!("REPLAY done: {} violation(s) raised for this case", report::REPLAY_HITS.load(std::sync::atomic::Ordering::Relaxed));
    }
    let j = rep.to_json();
    std::fs::write(&out, serde_json::to_string_pretty(&j).unwrap()).expect("write result");
}