use mcx::*;

use report::Report;

fn main() {
    let args: Vec<String> = std::env::args().collect();
    if args.len() < 5 {
        eprintln!("usage: mcx <property> <quick|thorough> <seed> <out.json>");
        std::process::exit(2);
    }
    let prop = args[1].clone();
    let tier = args[2].clone();
    let seed: u64 = args[3].parse().unwrap_or(0);
    let out = args[4].clone();
    if let Some(pos) = args.iter().position(|a| a == "--replay") {
        let txt = std::fs::read_to_string(&args[pos + 1]).expect("read replay file");
        let j: serde_json::Value = serde_json::from_str(&txt).expect("parse replay file");
        let name = j["exploration"].as_str().unwrap_or("").to_string();
        let init = j["init"].as_str().unwrap_or("initial").to_string();
        let path: Vec<String> = j["path"].as_array().map(|a| a.iter().map(|x| x.as_str().unwrap_or("").to_string()).collect()).unwrap_or_default();
        bfs::REPLAY.set((name, init, path)).ok();
    }
    session::install_quiet_panic_hook();
    let mut rep = Report { prop: prop.clone(), tier: tier.clone(), ..Default::default() };
    match prop.as_str() {
        "C01" => checks_e1::c01(&mut rep, &tier, seed, "C01"),
        "C02" => checks_e2::c02(&mut rep, &tier, seed),
        "C03" => checks_e1::c03(&mut rep, &tier, seed),
        "C03M" => checks_e1::c03_miri(&mut rep, seed),
        "C04" => checks_e2::c04(&mut rep, &tier, seed),
        "C05" => checks_e1::c05(&mut rep, &tier, seed, "C05"),
        "C06" => checks_e1::c06(&mut rep, &tier, seed, "C06"),
        "C07" => checks_e3::c07(&mut rep, &tier),
        "C08" => checks_e3::c08(&mut rep, &tier),
        "C16" => checks_e1::c16(&mut rep, &tier, seed),
        "C17" => checks_e3::c17(&mut rep, &tier),
        "C10" => checks_e1::c10(&mut rep, &tier, seed),
        "C13" => checks_e1::c13(&mut rep, &tier, seed),
        "C14" => checks_e1::c14(&mut rep, &tier, seed),
        "C15" => checks_e1::c06(&mut rep, &tier, seed, "C15"),
        _ => {
            eprintln!("unknown property {}", prop);
            std::process::exit(2);
        }
    }
    if bfs::REPLAY.get().is_none() {
        rep.check_required();
    }
    let j = rep.to_json();
    std::fs::write(&out, serde_json::to_string_pretty(&j).unwrap()).expect("write result");
}