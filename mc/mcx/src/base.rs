//! Owned buffer, recording/fault-injecting sink and the VT100 line emulator (DESIGN A.7).

use embedded_cli::buffer::Buffer;

#[derive(Clone, Debug, PartialEq, Eq)]
pub struct VBuf(pub Vec<u8>);

/// Only the size takes part in hashes: the live part of a buffer is in the canonical key already and
/// the dead part must stay out of it (`__verif_struct_hash` of Editor / History hashes every *field*).
impl std::hash::Hash for VBuf {
    fn hash<H: std::hash::Hasher>(&self, h: &mut H) {
        self.0.len().hash(h);
    }
}

impl VBuf {
    pub fn new(n: usize) -> Self {
        VBuf(vec![0; n])
    }
}

impl Buffer for VBuf {
    fn as_slice(&self) -> &[u8] {
        &self.0
    }
    fn as_slice_mut(&mut self) -> &mut [u8] {
        &mut self.0
    }
}

#[derive(Clone, Debug, PartialEq, Eq, Hash)]
pub enum SinkEv {
    /// bytes accepted by one `write` call
    W(Vec<u8>),
    /// successful flush
    F,
    /// a call (write or flush) that was made to fail
    Err,
}

#[derive(Clone, Copy, Debug, PartialEq, Eq, Hash, Default)]
pub enum Fail {
    #[default]
    Never,
    /// the k-th sink call (0-based, counted since `reset_calls`) fails, later ones succeed
    Once(usize),
    /// the k-th and every later call fail until `heal`
    From(usize),
}

#[derive(Debug, Clone, Copy, PartialEq, Eq, Hash)]
pub struct SinkErr;

impl embedded_io::Error for SinkErr {
    fn kind(&self) -> embedded_io::ErrorKind {
        embedded_io::ErrorKind::Other
    }
}

#[derive(Clone, Debug, Default)]
pub struct Sink {
    pub ev: Vec<SinkEv>,
    /// accept one byte per write call (short writes)
    pub short: bool,
    pub calls: usize,
    pub fail: Fail,
}

/// The sink is the environment, not library state: it contributes nothing to `Cli::__verif_struct_hash`
/// (which hashes every field of the real `Cli`, the writer included).
impl std::hash::Hash for Sink {
    fn hash<H: std::hash::Hasher>(&self, _h: &mut H) {}
}

impl Sink {
    pub fn take(&mut self) -> Vec<SinkEv> {
        std::mem::take(&mut self.ev)
    }
    pub fn reset_calls(&mut self) {
        self.calls = 0;
    }
    pub fn heal(&mut self) {
        self.fail = Fail::Never;
    }
    fn failing(&mut self) -> bool {
        let k = self.calls;
        self.calls += 1;
        match self.fail {
            Fail::Never => false,
            Fail::Once(n) => k == n,
            Fail::From(n) => k >= n,
        }
    }
}

impl embedded_io::ErrorType for Sink {
    type Error = SinkErr;
}

impl embedded_io::Write for Sink {
    fn write(&mut self, b: &[u8]) -> Result<usize, SinkErr> {
        if self.failing() {
            self.ev.push(SinkEv::Err);
            return Err(SinkErr);
        }
        if self.short && b.len() > 1 {
            self.ev.push(SinkEv::W(b[..1].to_vec()));
            Ok(1)
        } else {
            self.ev.push(SinkEv::W(b.to_vec()));
            Ok(b.len())
        }
    }
    fn flush(&mut self) -> Result<(), SinkErr> {
        if self.failing() {
            self.ev.push(SinkEv::Err);
            return Err(SinkErr);
        }
        self.ev.push(SinkEv::F);
        Ok(())
    }
}

pub fn sink_bytes(ev: &[SinkEv]) -> Vec<u8> {
    let mut v = vec![];
    for e in ev {
        if let SinkEv::W(b) = e {
            v.extend_from_slice(b);
        }
    }
    v
}

/// true iff no successful write follows the last successful flush
pub fn all_flushed(ev: &[SinkEv]) -> bool {
    let mut pending = false;
    for e in ev {
        match e {
            SinkEv::W(b) if !b.is_empty() => pending = true,
            SinkEv::F => pending = false,
            _ => {}
        }
    }
    !pending
}

/// ECMA-48 / VT100 emulator of the *current line* (infinite width, every printable has width 1).
#[derive(Clone, Debug, PartialEq, Eq, Hash, Default)]
pub struct Term {
    pub line: Vec<char>,
    pub col: usize,
    esc: Vec<u8>,
    pend: Vec<u8>,
    /// number of LF seen since creation / `reset_counts`
    pub lfs: u32,
    /// completed lines (filled only when `keep` is set)
    pub done: Vec<String>,
    pub keep: bool,
    /// set when a sequence the emulator does not implement, or an invalid byte, was seen
    pub unknown: Option<String>,
    /// bytes that were not valid UTF-8 when interpreted as printable text
    pub bad_utf8: bool,
}

impl Term {
    pub fn feed_all(&mut self, bytes: &[u8]) {
        for &b in bytes {
            self.feed(b);
        }
    }

    fn param(seq: &[u8], default: usize) -> Option<usize> {
        if seq.is_empty() {
            return Some(default);
        }
        let s = std::str::from_utf8(seq).ok()?;
        let n: usize = s.parse().ok()?;
        Some(if n == 0 { default } else { n })
    }

    pub fn feed(&mut self, b: u8) {
        if !self.esc.is_empty() {
            self.esc.push(b);
            if self.esc.len() == 2 {
                if b != b'[' {
                    self.unknown = Some(format!("ESC {:#x}", b));
                    self.esc.clear();
                }
                return;
            }
            if (0x40..=0x7e).contains(&b) {
                let seq = std::mem::take(&mut self.esc);
                let params = &seq[2..seq.len() - 1];
                let fin = b;
                let n = Self::param(params, 1);
                match (fin, n) {
                    (b'C', Some(n)) => self.col += n,
                    (b'D', Some(n)) => self.col = self.col.saturating_sub(n),
                    (b'G', Some(n)) | (b'`', Some(n)) => self.col = n - 1,
                    (b'P', Some(n)) => {
                        for _ in 0..n {
                            if self.col < self.line.len() {
                                self.line.remove(self.col);
                            }
                        }
                    }
                    (b'@', Some(n)) => {
                        for _ in 0..n {
                            if self.col < self.line.len() {
                                self.line.insert(self.col, ' ');
                            }
                        }
                    }
                    (b'X', Some(n)) => {
                        for i in 0..n {
                            if self.col + i < self.line.len() {
                                self.line[self.col + i] = ' ';
                            }
                        }
                    }
                    (b'K', _) => {
                        let mode = if params.is_empty() {
                            0
                        } else {
                            std::str::from_utf8(params)
                                .ok()
                                .and_then(|s| s.parse::<usize>().ok())
                                .unwrap_or(99)
                        };
                        match mode {
                            0 => self.line.truncate(self.col),
                            1 => {
                                for i in 0..=self.col {
                                    if i < self.line.len() {
                                        self.line[i] = ' ';
                                    }
                                }
                            }
                            2 => self.line.clear(),
                            _ => self.unknown = Some(format!("CSI {:?} K", params)),
                        }
                    }
                    (b'm', _) => {}
                    _ => {
                        self.unknown =
                            Some(format!("CSI {:?} {}", String::from_utf8_lossy(params), fin as char))
                    }
                }
            } else if !(0x20..=0x3f).contains(&b) {
                self.unknown = Some(format!("byte {:#x} inside CSI", b));
                self.esc.clear();
            }
            return;
        }
        match b {
            0x1b => {
                self.flush_pend();
                self.esc.push(b)
            }
            b'\r' => {
                self.flush_pend();
                self.col = 0
            }
            b'\n' => {
                self.flush_pend();
                self.lfs += 1;
                if self.keep {
                    let s: String = self.line.iter().collect();
                    self.done.push(s);
                }
                self.line.clear();
            }
            0x08 => {
                self.flush_pend();
                self.col = self.col.saturating_sub(1)
            }
            0..=0x1f | 0x7f => {
                self.flush_pend();
                self.unknown = Some(format!("control byte {:#x}", b));
            }
            _ => {
                self.pend.push(b);
                match std::str::from_utf8(&self.pend) {
                    Ok(s) => {
                        let c = s.chars().next().unwrap();
                        self.pend.clear();
                        self.put(c);
                    }
                    Err(e) => {
                        if e.error_len().is_some() || self.pend.len() >= 4 {
                            self.bad_utf8 = true;
                            self.pend.clear();
                            self.put('\u{fffd}');
                        }
                    }
                }
            }
        }
    }

    fn flush_pend(&mut self) {
        if !self.pend.is_empty() {
            self.bad_utf8 = true;
            self.pend.clear();
            self.put('\u{fffd}');
        }
    }

    fn put(&mut self, c: char) {
        while self.line.len() < self.col {
            self.line.push(' ');
        }
        if self.col < self.line.len() {
            self.line[self.col] = c;
        } else {
            self.line.push(c);
        }
        self.col += 1;
    }

    /// true when no escape sequence or multi-byte character is half received
    pub fn quiescent(&self) -> bool {
        self.esc.is_empty() && self.pend.is_empty()
    }

    pub fn trimmed(&self) -> String {
        let s: String = self.line.iter().collect();
        s.trim_end_matches(' ').to_string()
    }
}

/// What a byte string does to a screen that shows `prompt + text` with the cursor at `cursor`
/// (rows completed by a line feed, the current row, the column), all rows without trailing blanks.
#[derive(Clone, Debug, PartialEq, Eq)]
pub struct Screen {
    pub done: Vec<String>,
    pub cur: String,
    pub col: usize,
    pub unknown: Option<String>,
}

pub fn screen_effect(prompt: &str, text: &str, cursor: usize, bytes: &[u8]) -> Screen {
    let mut t = Term::default();
    t.line = format!("{}{}", prompt, text).chars().collect();
    t.col = prompt.chars().count() + cursor;
    t.keep = true;
    t.feed_all(bytes);
    Screen {
        done: t.done.iter().map(|r| r.trim_end_matches(' ').to_string()).collect(),
        cur: t.trimmed(),
        col: t.col,
        unknown: t.unknown.clone().or(if t.quiescent() { None } else { Some("incomplete sequence".into()) }),
    }
}

pub fn trim_blanks(s: &str) -> &str {
    s.trim_end_matches(' ')
}

#[cfg(test)]
mod tests {
    use super::*;
    #[test]
    fn term_basics() {
        let mut t = Term::default();
        t.feed_all("$ abc".as_bytes());
        assert_eq!(t.trimmed(), "$ abc");
        assert_eq!(t.col, 5);
        t.feed_all(b"\x1b[D\x1b[D\x1b[@x");
        assert_eq!(t.trimmed(), "$ axbc");
        assert_eq!(t.col, 4);
        t.feed_all(b"\x1b[D\x1b[P");
        assert_eq!(t.trimmed(), "$ abc");
        t.feed_all(b"\r\x1b[2K");
        assert_eq!(t.trimmed(), "");
        assert_eq!(t.col, 0);
        assert!(t.unknown.is_none());
    }
}
