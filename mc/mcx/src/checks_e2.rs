//! C02 and C04: decoder closures (E2) plus raw-byte sessions through the whole Cli (E1).

use crate::bfs::*;
use crate::checks_e1::*;
use crate::e1::Mon;
use crate::e2::*;
use crate::report::Report;
use crate::session::*;

pub fn c02(rep: &mut Report, tier: &str, seed: u64) {
    let caps = caps(tier);
    // (a) accumulator, all 256 byte values from every reachable state
    let m = AccModel { bytes: (0u8..=255).collect(), prop: "C02", refine: true };
    let name = m.name();
    run_model(rep, &m, &caps, seed);
    rep.required.push((name.clone(), "multibyte_scalar_completed".into()));
    rep.required.push((name, "dropped".into()));
    // (b) whole input decoder
    let bytes = if tier == "quick" { boundary_bytes() } else { (0u8..=255).collect() };
    let m = DecByteModel { bytes, prop: "C02", refine: tier == "quick" };
    let name = m.name();
    let mut c2 = caps.clone();
    if tier != "quick" {
        c2.max_states = 30_000_000;
        c2.max_wall_s = 3600.0;
        c2.max_rss_mb = 40_000;
    }
    run_model(rep, &m, &c2, seed);
    rep.required.push((name, "multibyte_scalar_completed".into()));
    // (c) whole CLI with raw bytes: every string handed out / echoed / stored must be UTF-8
    let raw = |b: u8| k(Key::Raw(b));
    let mut alphabet = vec![];
    let bytes: Vec<u8> = if tier == "quick" {
        vec![b'a', 0x80, 0xA0, 0xBF, 0xC0, 0xC3, 0xE0, 0xED, 0xF0, 0xF4, 0xF5, 0xFF]
    } else {
        vec![b'a', b' ', b'-', 0x80, 0x8F, 0x90, 0x9F, 0xA0, 0xBF, 0xC0, 0xC1, 0xC2, 0xC3, 0xDF, 0xE0, 0xE1, 0xED, 0xEF, 0xF0, 0xF1, 0xF4, 0xF5, 0xF8, 0xFF]
    };
    for b in bytes {
        alphabet.push(raw(b));
    }
    alphabet.extend([k(Key::Bs), k(Key::Lf), k(Key::Up), k(Key::Left), k(Key::Tab)]);
    let cfgs: Vec<(usize, usize)> = if tier == "quick" { vec![(4, 5)] } else { vec![(4, 5), (5, 6), (7, 0)] };
    for (cb, hb) in cfgs {
        let cfg = base_cfg(
            "C02",
            format!("raw-byte sessions cb={} hb={} cmd4", cb, hb),
            cb,
            hb,
            alphabet.clone(),
            Mon { utf8: true, invariants: true, ..Default::default() },
        );
        let name = cfg.label.clone();
        run_cmd4(rep, cfg, &caps, seed);
        rep.required.push((name, "utf8_handler_strings".into()));
    }
    // completion of multi-byte names in tight buffers: the line, echo and dispatched name stay UTF-8
    let alphabet = vec![ch('a'), ch('é'), k(Key::Bs), k(Key::Left), k(Key::Tab), k(Key::Lf), k(Key::Up)];
    for cb in if tier == "quick" { vec![3, 4, 5, 6] } else { vec![2, 3, 4, 5, 6, 7, 8] } {
        let cfg = base_cfg(
            "C02",
            format!("multi-byte completion cb={} hb=6 cmdU", cb),
            cb,
            6,
            alphabet.clone(),
            Mon { utf8: true, invariants: true, ..Default::default() },
        );
        run_cmdu(rep, cfg, &caps, seed);
    }
}

pub fn c04(rep: &mut Report, tier: &str, seed: u64) {
    let caps = caps(tier);
    let m = DecUnitModel { units: key_units(tier != "quick"), prop: "C04" };
    let name = m.name();
    run_model(rep, &m, &caps, seed);
    rep.required.push((name.clone(), "terminator_paired".into()));
    rep.required.push((name.clone(), "terminator_enter".into()));
    rep.required.push((name, "csi".into()));
    // through the whole Cli: every Enter is one dispatch and one fresh prompt, CR LF pairs count once,
    // nothing of an ignorable sequence reaches the line or the screen
    let ign = |b: &'static [u8]| k(Key::Ignored(b));
    let events = vec![
        ch('a'),
        ch('['),
        ch('é'),
        k(Key::Bs),
        k(Key::Left),
        k(Key::Up),
        k(Key::Cr),
        k(Key::Lf),
        ign(b"\x1b[1;5~"),
        ign(b"\x1b[?25h"),
        ign(b"\x1b[2J"),
        ign(b"\x1b[ q"),
        ign(b"\x1b[E"),
        ign(b"\x00"),
        ign(b"\x07"),
        ign(b"\x1b\x1b[1;2R"),
    ];
    let cfgs: Vec<(usize, usize)> = if tier == "quick" { vec![(3, 4)] } else { vec![(3, 4), (4, 6)] };
    for (cb, hb) in cfgs {
        let cfg = base_cfg(
            "C04",
            format!("decoding through the Cli cb={} hb={} raw", cb, hb),
            cb,
            hb,
            events.clone(),
            Mon { dispatch: true, term: true, editor: true, ignored_inert: true, invariants: true, ..Default::default() },
        );
        let name = cfg.label.clone();
        run_raw(rep, cfg, &caps, seed);
        rep.required.push((name, "ignored_sequences_checked".into()));
    }
    // "depends only on the byte sequence": two instances driven alternately, every interleaving (E6)
    if REPLAY.get().is_none() || crate::report::REPLAY_CASE.get().is_some() {
        let quick = tier == "quick";
        let bytes: Vec<u8> = vec![b'a', b'[', b'A', 0x0D, 0x0A, 0x1B, 0x80, 0x8F, 0x90, 0xA0, 0xBF, 0xC3, 0xD1, 0xE0, 0xE1, 0xED, 0xF0, 0xF1, 0xF4];
        rep.enumerations.push(crate::e6::dec_interleavings("C04", &bytes, if quick { 4 } else { 5 }));
        let events = vec![ch('a'), ch('é'), ch('𝄞'), ch(' '), ch('"'), k(Key::Bs), k(Key::Left), k(Key::Up), k(Key::Tab), k(Key::Lf), k(Key::Cr), wr("x")];
        rep.enumerations.push(crate::e6::cli_interleavings::<crate::cmds::Cmd4>("C04", "derived enum Cmd4", 4, 6, &events, if quick { 3 } else { 4 }));
        let events = vec![ch('a'), ch('é'), ch(' '), k(Key::Bs), k(Key::Left), k(Key::Up), k(Key::Lf), k(Key::Cr)];
        rep.enumerations.push(crate::e6::cli_interleavings::<embedded_cli::command::RawCommand<'static>>("C04", "RawCommand", 3, 4, &events, if quick { 4 } else { 5 }));
    }
}
