//! E2: closure of the real decoders (`Utf8Accum`, `InputGenerator`) in lock-step with the strict
//! reference decoder / the terminator-pairing automaton (DESIGN A.9).

use crate::bfs::*;
use crate::refs::StrictUtf8;
use embedded_cli::__verif::{ControlInput, Input, InputGenerator, Utf8Accum};

// ------------------------------------------------------------------ Utf8Accum x 256 bytes

#[derive(Clone)]
pub struct AccSt {
    acc: Utf8Accum,
    r: StrictUtf8,
}

pub struct AccModel {
    pub bytes: Vec<u8>,
    pub prop: &'static str,
    /// refine the key by the one-step behaviour over `boundary_bytes()` (state the hook cannot see)
    pub refine: bool,
}

fn acc_sig(a: &Utf8Accum) -> u64 {
    use std::hash::{Hash, Hasher};
    let mut h = std::collections::hash_map::DefaultHasher::new();
    for b in boundary_bytes() {
        let mut c = a.clone();
        c.push_byte(b).map(|s| s.as_bytes().to_vec()).hash(&mut h);
        canon_acc(&c).hash(&mut h);
    }
    // two-byte probes: every kind of lead byte followed by second octets around the range boundaries
    // (state that only matters for the *next* sequence shows here)
    for lead in [0xC2u8, 0xDF, 0xE0, 0xE1, 0xED, 0xEF, 0xF0, 0xF1, 0xF4] {
        for second in [0x80u8, 0x8F, 0x90, 0x9F, 0xA0, 0xBF] {
            let mut c = a.clone();
            let _ = c.push_byte(lead);
            c.push_byte(second).map(|s| s.as_bytes().to_vec()).hash(&mut h);
            canon_acc(&c).hash(&mut h);
        }
    }
    h.finish()
}

fn canon_acc(a: &Utf8Accum) -> ([u8; 4], u8, u8) {
    let (buf, expected, partial) = a.__verif_state();
    if expected == 0 {
        ([0; 4], 0, 0)
    } else {
        let mut b = [0u8; 4];
        let p = (partial as usize).min(4);
        b[..p].copy_from_slice(&buf[..p]);
        (b, expected, partial)
    }
}

/// judge one decoder output against the strict reference (shared by the three models)
fn judge_char(
    prop: &str,
    got: Option<&[u8]>,
    want: Option<char>,
    ctx: &dyn Fn() -> String,
    stats: &mut Stats,
    v: &mut Vec<Viol>,
) {
    if let Some(g) = got {
        stats.hit("emitted");
        match std::str::from_utf8(g) {
            Err(_) => {
                v.push(Viol::new(format!("{}/ill-formed-utf8-emitted", prop), format!("{}: emitted bytes {:02X?}", ctx(), g)));
                return;
            }
            Ok(s) => {
                if s.chars().count() != 1 {
                    v.push(Viol::new(format!("{}/not-one-scalar", prop), format!("{}: emitted {:?}", ctx(), s)));
                    return;
                }
            }
        }
    }
    match (got, want) {
        (Some(g), Some(c)) => {
            stats.hit("scalar_completed");
            if c.len_utf8() > 1 {
                stats.hit("multibyte_scalar_completed");
            }
            let mut b = [0u8; 4];
            if g != c.encode_utf8(&mut b).as_bytes() {
                v.push(Viol::new(
                    format!("{}/wrong-scalar", prop),
                    format!("{}: emitted {:02X?}, the well-formed sequence ending here is {:?}", ctx(), g, c),
                ));
            }
        }
        (None, Some(c)) => {
            v.push(Viol::new(
                format!("{}/well-formed-char-dropped", prop),
                format!("{}: a contiguous well-formed encoding of {:?} ends here but nothing was emitted", ctx(), c),
            ));
        }
        (Some(_), None) => stats.hit("lenient_accepts"),
        (None, None) => stats.hit("dropped"),
    }
}

impl Model for AccModel {
    type State = AccSt;
    type Key = (([u8; 4], u8, u8), StrictUtf8, u64);
    type Event = u8;

    fn name(&self) -> String {
        format!("Utf8Accum closure over {} byte values", self.bytes.len())
    }
    fn inits(&self) -> Vec<(String, AccSt)> {
        vec![("initial".into(), AccSt { acc: Utf8Accum::default(), r: StrictUtf8::default() })]
    }
    fn events(&self) -> Vec<u8> {
        self.bytes.clone()
    }
    fn key(&self, s: &AccSt) -> Self::Key {
        (canon_acc(&s.acc), s.r.clone(), (if self.refine { acc_sig(&s.acc) } else { 0 }) ^ s.acc.__verif_canonical_hash())
    }
    fn render_event(&self, e: &u8) -> String {
        format!("{:02X}", e)
    }
    fn step(&self, s: &AccSt, e: &u8, stats: &mut Stats) -> StepOut<AccSt> {
        let mut n = s.clone();
        let mut v = vec![];
        let want = n.r.push(*e);
        let got: Option<Vec<u8>> = n.acc.push_byte(*e).map(|s| s.as_bytes().to_vec());
        let before = canon_acc(&s.acc);
        judge_char(self.prop, got.as_deref(), want, &|| format!("byte {:02X} in state {:02X?}", e, before), stats, &mut v);
        StepOut::new(if v.is_empty() { Some(n) } else { None }, v)
    }
}

// ------------------------------------------------------------------ InputGenerator x bytes (C02)

#[derive(Clone)]
pub struct DecSt {
    gen: InputGenerator,
    r: StrictUtf8,
    /// reference view of "inside ESC [ ... " (bytes there are not text)
    csi: bool,
    last_esc: bool,
}

pub struct DecByteModel {
    pub bytes: Vec<u8>,
    pub prop: &'static str,
    pub refine: bool,
}

fn canon_gen(g: &InputGenerator) -> (u8, u8, [u8; 4], u8, u8) {
    crate::session::canon_dec(g.__verif_state())
}

fn gen_sig(g: &InputGenerator) -> u64 {
    use std::hash::{Hash, Hasher};
    let mut h = std::collections::hash_map::DefaultHasher::new();
    let feed = |c: &mut InputGenerator, b: u8, h: &mut std::collections::hash_map::DefaultHasher| match c.accept(b) {
        Some(Input::Char(s)) => (1u8, s.as_bytes().to_vec()).hash(h),
        Some(Input::Control(k)) => (2u8, ctl_name(k).as_bytes().to_vec()).hash(h),
        None => 0u8.hash(h),
    };
    for b in boundary_bytes() {
        let mut c = g.clone();
        feed(&mut c, b, &mut h);
        canon_gen(&c).hash(&mut h);
    }
    // whole units: first/last scalar of every encoded length, both terminators, an arrow
    let units: [&[u8]; 12] = [
        "\u{80}".as_bytes(),
        "\u{7ff}".as_bytes(),
        "\u{800}".as_bytes(),
        "\u{d7ff}".as_bytes(),
        "\u{ffff}".as_bytes(),
        "\u{10000}".as_bytes(),
        "\u{10ffff}".as_bytes(),
        "é".as_bytes(),
        b"\r",
        b"\n",
        b"\x1b[A",
        b"[",
    ];
    for u in units {
        let mut c = g.clone();
        for b in u {
            feed(&mut c, *b, &mut h);
        }
        canon_gen(&c).hash(&mut h);
    }
    h.finish()
}

impl Model for DecByteModel {
    type State = DecSt;
    type Key = ((u8, u8, [u8; 4], u8, u8), StrictUtf8, bool, bool, u64);
    type Event = u8;

    fn name(&self) -> String {
        format!("InputGenerator closure over {} byte values", self.bytes.len())
    }
    fn inits(&self) -> Vec<(String, DecSt)> {
        vec![(
            "initial".into(),
            DecSt { gen: InputGenerator::new(), r: StrictUtf8::default(), csi: false, last_esc: false },
        )]
    }
    fn events(&self) -> Vec<u8> {
        self.bytes.clone()
    }
    fn key(&self, s: &DecSt) -> Self::Key {
        (canon_gen(&s.gen), s.r.clone(), s.csi, s.last_esc, (if self.refine { gen_sig(&s.gen) } else { 0 }) ^ s.gen.__verif_canonical_hash())
    }
    fn render_event(&self, e: &u8) -> String {
        format!("{:02X}", e)
    }
    fn step(&self, s: &DecSt, e: &u8, stats: &mut Stats) -> StepOut<DecSt> {
        let mut n = s.clone();
        let mut v = vec![];
        let b = *e;
        // reference: which bytes are text at all
        let mut want: Option<char> = None;
        let mut is_text = false;
        if n.csi {
            if (0x40..=0x7e).contains(&b) {
                n.csi = false;
            }
            n.last_esc = false;
        } else if n.last_esc && b == b'[' {
            n.csi = true;
            n.last_esc = false;
        } else {
            n.last_esc = b == 0x1b;
            if b >= 0x20 {
                is_text = true;
                want = n.r.push(b);
            }
            // control bytes do not reach the accumulator: a pending sequence stays pending in the
            // implementation; the reference only requires *contiguous* sequences, so abandon
            if b < 0x20 {
                n.r.reset();
            }
        }
        let got: Option<Vec<u8>> = match n.gen.accept(b) {
            Some(Input::Char(c)) => Some(c.as_bytes().to_vec()),
            Some(Input::Control(_)) => {
                stats.hit("control");
                None
            }
            None => None,
        };
        let before = canon_gen(&s.gen);
        if is_text {
            // DEL is left open by C04; for C02 only well-formedness of what is emitted matters
            let want = if b == 0x7f { None } else { want };
            if b == 0x7f && got.is_none() {
                // nothing emitted for DEL is fine
            } else {
                judge_char(self.prop, got.as_deref(), want, &|| format!("byte {:02X} in decoder state {:02X?}", b, before), stats, &mut v);
            }
        } else if let Some(g) = &got {
            // a character emitted for a byte that is not text (control byte or part of a CSI)
            if std::str::from_utf8(g).is_err() {
                v.push(Viol::new(format!("{}/ill-formed-utf8-emitted", self.prop), format!("byte {:02X}: emitted {:02X?}", b, g)));
            } else {
                stats.hit("lenient_accepts");
            }
        }
        StepOut::new(if v.is_empty() { Some(n) } else { None }, v)
    }
}

pub fn boundary_bytes() -> Vec<u8> {
    let mut v = vec![
        0x00, 0x07, 0x08, 0x09, 0x0A, 0x0D, 0x1B, 0x20, b'[', b'A', b'a', 0x7E, 0x7F, 0x80, 0x8F, 0x90, 0x9F, 0xA0, 0xA9, 0xBF, 0xC0, 0xC1,
        0xC2, 0xC3, 0xDF, 0xE0, 0xE1, 0xEC, 0xED, 0xEE, 0xEF, 0xF0, 0xF1, 0xF3, 0xF4, 0xF5, 0xF7, 0xF8, 0xFB, 0xFE, 0xFF,
    ];
    v.sort();
    v.dedup();
    v
}

// ------------------------------------------------------------------ InputGenerator x key units (C04)

#[derive(Clone, Debug, PartialEq, Eq, Hash)]
pub enum Unit {
    Char(char),
    Del,
    Bs,
    Tab,
    Cr,
    Lf,
    /// ignored C0 control (incl. lone ESC)
    C0(u8),
    /// ESC [ params final
    Csi(Vec<u8>, u8),
}

impl Unit {
    pub fn bytes(&self) -> Vec<u8> {
        match self {
            Unit::Char(c) => c.to_string().into_bytes(),
            Unit::Del => vec![0x7f],
            Unit::Bs => vec![8],
            Unit::Tab => vec![9],
            Unit::Cr => vec![13],
            Unit::Lf => vec![10],
            Unit::C0(b) => vec![*b],
            Unit::Csi(p, f) => {
                let mut v = vec![0x1b, b'['];
                v.extend_from_slice(p);
                v.push(*f);
                v
            }
        }
    }
}

#[derive(Clone, Debug, PartialEq, Eq, Hash)]
pub enum Out {
    Char(String),
    Ctl(&'static str),
}

pub fn ctl_name(c: ControlInput) -> &'static str {
    match c {
        ControlInput::Backspace => "Backspace",
        ControlInput::Down => "Down",
        ControlInput::Enter => "Enter",
        ControlInput::Back => "Left",
        ControlInput::Forward => "Right",
        ControlInput::Tab => "Tab",
        ControlInput::Up => "Up",
    }
}

#[derive(Clone)]
pub struct UnitSt {
    gen: InputGenerator,
    /// reference: 0 = no unpaired terminator pending, else CR / LF
    pending: u8,
    last_lone_esc: bool,
}

pub struct DecUnitModel {
    pub units: Vec<Unit>,
    pub prop: &'static str,
}

pub fn key_units(thorough: bool) -> Vec<Unit> {
    let mut u = vec![];
    for c in 0x20u8..0x7f {
        u.push(Unit::Char(c as char));
    }
    for c in ['\u{80}', '\u{7ff}', '\u{800}', '\u{ffff}', '\u{10000}', '\u{10ffff}', 'é', '中', '𝄞'] {
        u.push(Unit::Char(c));
    }
    u.push(Unit::Del);
    u.push(Unit::Bs);
    u.push(Unit::Tab);
    u.push(Unit::Cr);
    u.push(Unit::Lf);
    for b in 0u8..0x20 {
        if ![8, 9, 10, 13].contains(&b) {
            u.push(Unit::C0(b));
        }
    }
    let mut params: Vec<Vec<u8>> = vec![
        vec![],
        b"1".to_vec(),
        b"24".to_vec(),
        b"1;5".to_vec(),
        b"?25".to_vec(),
        b"<".to_vec(),
        b" ".to_vec(),
        b"!".to_vec(),
        b"0 ".to_vec(),
    ];
    if thorough {
        for b in 0x20u8..=0x3f {
            params.push(vec![b]);
        }
        params.push(b"1;2;3;4;5;6;7;8".to_vec());
    }
    params.sort();
    params.dedup();
    for p in &params {
        for f in 0x40u8..=0x7e {
            u.push(Unit::Csi(p.clone(), f));
        }
    }
    u
}

impl Model for DecUnitModel {
    type State = UnitSt;
    type Key = ((u8, u8, [u8; 4], u8, u8), u8, bool, u64);
    type Event = Unit;

    fn name(&self) -> String {
        format!("InputGenerator closure over {} key units", self.units.len())
    }
    fn inits(&self) -> Vec<(String, UnitSt)> {
        vec![("initial".into(), UnitSt { gen: InputGenerator::new(), pending: 0, last_lone_esc: false })]
    }
    fn events(&self) -> Vec<Unit> {
        self.units.clone()
    }
    fn key(&self, s: &UnitSt) -> Self::Key {
        (canon_gen(&s.gen), s.pending, s.last_lone_esc, gen_sig(&s.gen) ^ s.gen.__verif_canonical_hash())
    }
    fn render_event(&self, e: &Unit) -> String {
        format!("{:?}", e)
    }
    fn step(&self, s: &UnitSt, e: &Unit, stats: &mut Stats) -> StepOut<UnitSt> {
        // a lone ESC followed by `[` *is* a CSI introducer: that byte string is covered by the Csi units
        if s.last_lone_esc && *e == Unit::Char('[') {
            return StepOut::new(None, vec![]);
        }
        let mut n = s.clone();
        let mut outs: Vec<(usize, Out)> = vec![];
        let bytes = e.bytes();
        for (i, b) in bytes.iter().enumerate() {
            match n.gen.accept(*b) {
                Some(Input::Char(c)) => outs.push((i, Out::Char(String::from_utf8_lossy(c.as_bytes()).into_owned()))),
                Some(Input::Control(c)) => outs.push((i, Out::Ctl(ctl_name(c)))),
                None => {}
            }
        }
        let lastb = bytes.len() - 1;
        // expected outputs: admissible list of output vectors
        let mut adm: Vec<Vec<Out>> = vec![];
        let mut new_pending = 0u8;
        match e {
            Unit::Char(c) => adm.push(vec![Out::Char(c.to_string())]),
            Unit::Del => {
                adm.push(vec![]);
                adm.push(vec![Out::Ctl("Backspace")]);
                adm.push(vec![Out::Char("\u{7f}".to_string())]);
            }
            Unit::Bs => adm.push(vec![Out::Ctl("Backspace")]),
            Unit::Tab => adm.push(vec![Out::Ctl("Tab")]),
            Unit::Cr | Unit::Lf => {
                let me = if *e == Unit::Cr { 13 } else { 10 };
                let other = if me == 13 { 10 } else { 13 };
                if s.pending == other {
                    stats.hit("terminator_paired");
                    adm.push(vec![]);
                    new_pending = 0;
                } else {
                    stats.hit("terminator_enter");
                    adm.push(vec![Out::Ctl("Enter")]);
                    new_pending = me;
                }
            }
            Unit::C0(_) => adm.push(vec![]),
            Unit::Csi(_, f) => {
                stats.hit("csi");
                adm.push(match f {
                    b'A' => vec![Out::Ctl("Up")],
                    b'B' => vec![Out::Ctl("Down")],
                    b'C' => vec![Out::Ctl("Right")],
                    b'D' => vec![Out::Ctl("Left")],
                    _ => vec![],
                });
            }
        }
        n.pending = new_pending;
        n.last_lone_esc = *e == Unit::C0(0x1b);
        let got: Vec<Out> = outs.iter().map(|(_, o)| o.clone()).collect();
        let mut v = vec![];
        if !adm.contains(&got) {
            let cls = match e {
                Unit::Char(_) => "char",
                Unit::Del => "del",
                Unit::Bs | Unit::Tab => "bs-tab",
                Unit::Cr | Unit::Lf => "terminator-pairing",
                Unit::C0(_) => "ignored-control",
                Unit::Csi(..) => "csi",
            };
            v.push(Viol::new(
                format!("{}/decode-{}", self.prop, cls),
                format!("unit {:?} (pending terminator {:#x}): decoder emitted {:?}, expected one of {:?}", e, s.pending, got, adm),
            ));
        } else if outs.iter().any(|(i, _)| *i != lastb) {
            v.push(Viol::new(
                format!("{}/emitted-before-unit-complete", self.prop),
                format!("unit {:?}: outputs at byte offsets {:?}", e, outs),
            ));
        }
        StepOut::new(if v.is_empty() { Some(n) } else { None }, v)
    }
}
