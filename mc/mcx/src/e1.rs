//! E1 session model: BFS `Model` over `Sess` with switchable monitors (one group per property).

use crate::base::*;
use crate::bfs::*;
use crate::refs::*;
use crate::session::*;
use embedded_cli::service::{Autocomplete, Help};
use std::marker::PhantomData;

#[derive(Clone, Debug, Default)]
pub struct Mon {
    /// C01: handler dispatch, cleared line, fresh prompt
    pub dispatch: bool,
    /// C05: ideal editor on Ch/Bs/Left/Right
    pub editor: bool,
    /// C10: history contents and navigation
    pub history: bool,
    /// C06: terminal line/cursor after every call
    pub term: bool,
    /// C15: everything written is flushed
    pub flush: bool,
    /// C02: strings handed out / echoed are UTF-8
    pub utf8: bool,
    /// C03: representation invariants (panics are always reported)
    pub invariants: bool,
    /// C11: Tab result admissible for `names`
    pub complete: bool,
    /// C16 with a facility disabled: the key must do nothing at all
    pub up_down_noop: bool,
    pub tab_noop: bool,
    /// C13: write/handler output framing and line preservation
    pub framing: bool,
    /// C04 through the Cli: ignorable sequences change neither the line nor the screen
    pub ignored_inert: bool,
}

#[derive(Clone, Debug)]
pub struct Cfg {
    pub label: String,
    pub prop: &'static str,
    pub cb: usize,
    pub hb: usize,
    pub prompt: &'static str,
    pub events: Vec<Ev>,
    pub mon: Mon,
    /// command names of the command set `C` (for the completion monitor)
    pub names: Vec<String>,
    /// whether `help` lines are answered by the library (help feature on)
    pub help_on: bool,
    /// whether the command set is a derived one whose handler is still `H` (raw)
    pub short_sink: bool,
    /// run every transition a second and third time with dead buffer bytes overwritten
    pub poison: bool,
    /// extra initial states (label, builder)
    pub prefilled: Vec<(String, Vec<Ev>)>,
    /// sweeps (label, events, from): like `prefilled`, but the state after *every* event with index >= from
    /// is an initial state of the search (e.g. a long line, then Left x n: every cursor position)
    pub prefilled_sweep: Vec<(String, Vec<Ev>, usize)>,
    /// marks (label, events, indices): like `prefilled_sweep`, but only the states after the listed event
    /// indices are initial states (e.g. after 2^k +- 3 repetitions of a key: a wrapped counter is probed)
    pub prefilled_marks: Vec<(String, Vec<Ev>, Vec<usize>)>,
    /// build the Cli with the deprecated `Cli::new` instead of the builder
    pub deprecated_ctor: bool,
    /// refine the canonical key by the one-step behaviour signature (small configurations only: every
    /// key computation costs one execution per event)
    pub refine: bool,
    /// depth of the behaviour signature (1 unless set; 2 costs |events|^2 executions per key)
    pub refine_depth: u8,
    /// events used for the behaviour signature (default: the whole alphabet)
    pub refine_probe: Option<Vec<Ev>>,
    /// collect a hash of every transition projected on feature-independent observations (C16)
    pub digest: Option<std::sync::Arc<std::sync::Mutex<std::collections::HashSet<u64>>>>,
}

pub struct SessModel<C> {
    pub cfg: Cfg,
    _ph: PhantomData<fn() -> C>,
}

impl<C> SessModel<C> {
    pub fn new(cfg: Cfg) -> Self {
        SessModel { cfg, _ph: PhantomData }
    }
}

fn chars_of(b: &[u8]) -> Option<Vec<char>> {
    std::str::from_utf8(b).ok().map(|s| s.chars().collect())
}

pub fn conv_lf(s: &str) -> String {
    s.replace('\n', "\r\n")
}

/// expected bytes for a script of writer calls (A.8), without the final framing CRLF
pub fn script_out(script: &[Piece]) -> String {
    let mut out = String::new();
    for p in script {
        out.push_str(&conv_lf(p.text));
        if p.kind == PieceKind::WritelnStr {
            out.push_str("\r\n");
        }
    }
    out
}

pub fn framed(out: &str) -> String {
    let mut s = out.to_string();
    if !s.is_empty() && !s.ends_with('\n') {
        s.push_str("\r\n");
    }
    s
}

impl<C: Autocomplete + Help> SessModel<C> {
    pub fn invariants_pub(&self, sn: &Snap, v: &mut Vec<Viol>) {
        self.invariants(sn, v)
    }

    fn invariants(&self, sn: &Snap, v: &mut Vec<Viol>) {
        let p = self.cfg.prop;
        if let Some(b) = &sn.broken {
            v.push(Viol::new(format!("{}/invariant-broken", p), b.clone()));
            return;
        }
        match std::str::from_utf8(&sn.text) {
            Err(_) => v.push(Viol::new(format!("{}/line-not-utf8", p), format!("{:?}", sn.text))),
            Ok(t) => {
                if sn.cursor > t.chars().count() {
                    v.push(Viol::new(
                        format!("{}/cursor-beyond-line", p),
                        format!("cursor {} line {:?}", sn.cursor, t),
                    ));
                }
            }
        }
        if sn.text.contains(&0) {
            v.push(Viol::new(format!("{}/nul-in-line", p), format!("{:?}", sn.text)));
        }
        match hist_entries(&sn.hist) {
            None => v.push(Viol::new(format!("{}/history-representation", p), format!("{:?}", sn.hist))),
            Some(e) => {
                if let Err(m) = hist_pos(&e, sn.hcur) {
                    v.push(Viol::new(format!("{}/history-cursor", p), m));
                }
            }
        }
    }

    fn check(&self, before: &Snap, bterm: &Term, bpend: u8, e: &Ev, calls: &[CallObs], stats: &mut Stats) -> Vec<Viol> {
        let _ = bterm.lfs;
        let p = self.cfg.prop;
        let mon = &self.cfg.mon;
        let mut v = vec![];
        // panics are violations of whatever is being checked
        for c in calls {
            if let Some(m) = &c.panicked {
                v.push(Viol::new(format!("{}/panic", p), m.clone()));
                return v;
            }
        }
        let last = calls.last().unwrap();
        let after = &last.after;
        if mon.invariants {
            for c in calls {
                self.invariants(&c.after, &mut v);
            }
        }
        if !v.is_empty() {
            return v;
        }
        // ---- per call monitors
        for (ci, c) in calls.iter().enumerate() {
            if mon.flush && c.ok {
                stats.hit("flush_checked_calls");
                if !sink_bytes(&c.sink).is_empty() {
                    stats.hit("flush_calls_with_output");
                }
                if !all_flushed(&c.sink) {
                    v.push(Viol::new(
                        format!("{}/unflushed-output", p),
                        format!("call {} of {}: {:?}", ci, e.render(), c.sink),
                    ));
                }
            }
            if mon.term && c.ok {
                stats.hit("term_checked_calls");
                if let Some(u) = &c.term_unknown {
                    v.push(Viol::new("MACHINERY/emulator-unknown-sequence", u.clone()));
                } else if !c.term_quiescent {
                    v.push(Viol::new(
                        format!("{}/incomplete-sequence-at-return", p),
                        format!("after {}", e.render()),
                    ));
                } else if let Some(t) = c.after.text_str() {
                    let want = format!("{}{}", c.after.prompt, t);
                    let want_t = trim_blanks(&want).to_string();
                    let want_col = c.after.prompt.chars().count() + c.after.cursor;
                    if c.term_line != want_t {
                        let cls = match &c.kind {
                            CallKind::Byte(_) => format!("{}/screen-line-after-{}", p, ev_class(e)),
                            CallKind::Write => format!("{}/screen-line-after-write", p),
                            CallKind::SetPrompt => format!("{}/screen-line-after-set-prompt", p),
                        };
                        v.push(Viol::new(
                            cls,
                            format!("terminal shows {:?}, expected {:?}", c.term_line, want_t),
                        ));
                    } else if c.term_col != want_col {
                        let cls = match &c.kind {
                            CallKind::Byte(_) => format!("{}/screen-cursor-after-{}", p, ev_class(e)),
                            CallKind::Write => format!("{}/screen-cursor-after-write", p),
                            CallKind::SetPrompt => format!("{}/screen-cursor-after-set-prompt", p),
                        };
                        v.push(Viol::new(
                            cls,
                            format!(
                                "terminal cursor at column {}, editor cursor means column {} (line {:?})",
                                c.term_col, want_col, want_t
                            ),
                        ));
                    }
                }
            }
            if mon.utf8 {
                stats.hit("utf8_checked_calls");
                if c.term_bad_utf8 {
                    v.push(Viol::new(format!("{}/sink-not-utf8", p), format!("after {}", e.render())));
                }
                if c.after.text_str().is_none() {
                    v.push(Viol::new(format!("{}/line-not-utf8", p), format!("{:?}", c.after.text)));
                }
                for h in &c.handler {
                    stats.hit("utf8_handler_strings");
                    if h.bad_utf8 {
                        v.push(Viol::new(format!("{}/handler-string-not-utf8", p), format!("{:?}", h)));
                    }
                }
                if hist_entries(&c.after.hist).is_none() && !c.after.hist.is_empty() {
                    // entries not UTF-8 or representation broken
                    if c.after.hist.last() == Some(&0) {
                        v.push(Viol::new(format!("{}/history-not-utf8", p), format!("{:?}", c.after.hist)));
                    }
                }
            }
        }
        if !v.is_empty() {
            return v;
        }
        let all_ok = calls.iter().all(|c| c.ok);
        if !all_ok {
            // sink faults are handled by the fault engine, not here
            return v;
        }
        let handler_calls: Vec<&HCall> = calls.iter().flat_map(|c| c.handler.iter()).collect();
        let btext = match before.text_str() {
            Some(t) => t.to_string(),
            None => return v,
        };

        // ---- C01 dispatch
        if mon.dispatch {
            // a terminator that completes a CR LF / LF CR pair is not an Enter (pairing itself is C04's)
            let paired = match e {
                Ev::Key(Key::Lf, _) => bpend == b'\r',
                Ev::Key(Key::Cr, _) => bpend == b'\n',
                _ => false,
            };
            if paired {
                stats.hit("dispatch_paired_terminator");
                if !handler_calls.is_empty() || after.text != before.text {
                    v.push(Viol::new(
                        format!("{}/second-half-of-terminator-pair-acted", p),
                        format!("{} completing a CR LF / LF CR pair on line {:?}: handler {:?}, line now {:?}", e.render(), btext, handler_calls, after.text),
                    ));
                }
            }
            match e {
                Ev::Key(k, hmode) if k.is_enter() && !paired => {
                    stats.hit("dispatch_enter");
                    let adm = tokens_adm(&btext);
                    let nonempty: Vec<&Vec<String>> = adm.iter().filter(|t| !t.is_empty()).collect();
                    let mut expect_calls: Vec<usize> = vec![]; // admissible call counts
                    let mut is_help = false;
                    if nonempty.is_empty() {
                        expect_calls.push(0);
                    } else {
                        for t in &nonempty {
                            let hk = if self.cfg.help_on { help_kind(t) } else { HelpKind::NotHelp };
                            match hk {
                                HelpKind::NotHelp => expect_calls.push(1),
                                HelpKind::All | HelpKind::Command => {
                                    is_help = true;
                                    expect_calls.push(0)
                                }
                                HelpKind::Unspecified => {
                                    is_help = true;
                                    expect_calls.push(0);
                                    expect_calls.push(1)
                                }
                            }
                        }
                        if adm.len() != nonempty.len() {
                            expect_calls.push(0);
                        }
                    }
                    if !expect_calls.contains(&handler_calls.len()) {
                        v.push(Viol::new(
                            format!("{}/handler-call-count", p),
                            format!(
                                "line {:?}: handler called {} times, expected {:?}",
                                btext,
                                handler_calls.len(),
                                expect_calls
                            ),
                        ));
                    } else if handler_calls.len() == 1 {
                        stats.hit("dispatch_with_command");
                        let h = handler_calls[0];
                        let ok = nonempty.iter().any(|t| h.name == t[0] && h.args == classify(&t[1..]));
                        if nonempty.iter().any(|t| t.len() >= 2) {
                            stats.hit("dispatch_with_args");
                        }
                        if !ok {
                            v.push(Viol::new(
                                format!("{}/dispatched-tokens", p),
                                format!(
                                    "line {:?}: handler got name {:?} args {:?}, tokens are {:?}",
                                    btext, h.name, h.args, nonempty
                                ),
                            ));
                        }
                    }
                    if !after.text.is_empty() || after.cursor != 0 {
                        v.push(Viol::new(
                            format!("{}/line-not-cleared", p),
                            format!("after Enter on {:?} the line is {:?} cursor {}", btext, after.text, after.cursor),
                        ));
                    }
                    // one fresh prompt, judged on the emulated screen (not on bytes): the submitted line stays
                    // as a completed row, then the output rows, then a current row that is exactly the prompt
                    let bytes: Vec<u8> = calls.iter().flat_map(|c| sink_bytes(&c.sink)).collect();
                    let got = screen_effect(before.prompt, &btext, before.cursor, &bytes);
                    let submitted = trim_blanks(&format!("{}{}", before.prompt, btext)).to_string();
                    if let Some(u) = &got.unknown {
                        v.push(Viol::new("MACHINERY/emulator-unknown-sequence", u.clone()));
                    } else if got.done.first() != Some(&submitted) || got.cur != trim_blanks(after.prompt) || got.col != after.prompt.chars().count() {
                        v.push(Viol::new(
                            format!("{}/fresh-prompt", p),
                            format!(
                                "Enter on {:?}: screen rows {:?}, current row {:?} col {}; expected first row {:?} and a current row {:?}",
                                btext, got.done, got.cur, got.col, submitted, after.prompt
                            ),
                        ));
                    } else if !is_help && handler_calls.len() <= 1 {
                        // exact rows when we know everything that is printed
                        let body = match (handler_calls.len(), hmode) {
                            (0, _) | (1, HMode::Silent) | (1, HMode::Prompt(_)) => Some(String::new()),
                            (1, HMode::Write(t)) => Some(framed(&conv_lf(t))),
                            (1, HMode::Script(s)) | (1, HMode::ScriptPrompt(s, _)) => Some(framed(&script_out(s))),
                            (1, HMode::ParseErr) => None, // wording of the error line is not C01's / C13's subject
                            _ => None,
                        };
                        if let Some(body) = body {
                            let want_bytes = format!("\r\n{}{}", body, after.prompt);
                            let want = screen_effect(before.prompt, &btext, before.cursor, want_bytes.as_bytes());
                            if got != want {
                                let cls = if mon.framing { "handler-output-framing" } else { "fresh-prompt" };
                                v.push(Viol::new(
                                    format!("{}/{}", p, cls),
                                    format!("line {:?} {:?}: screen rows {:?} + {:?}@{}, expected rows {:?} + {:?}@{}", btext, hmode, got.done, got.cur, got.col, want.done, want.cur, want.col),
                                ));
                            }
                        }
                    }
                }
                _ => {
                    stats.hit("dispatch_other_key");
                    if !handler_calls.is_empty() {
                        v.push(Viol::new(
                            format!("{}/handler-called-without-enter", p),
                            format!("{} invoked the handler: {:?}", e.render(), handler_calls),
                        ));
                    }
                }
            }
        }

        // ---- C05 editor
        if mon.editor {
            if let Ev::Key(k, _) = e {
                let r0 = REditor::from_text(&btext, before.cursor);
                let mut r = r0.clone();
                let mut checked = true;
                match k {
                    Key::Ch(c) => {
                        if r.insert(*c, self.cfg.cb) {
                            stats.hit("editor_insert_accepted");
                            if r0.cursor < r0.line.len() {
                                stats.hit("editor_insert_inside");
                            }
                        } else {
                            stats.hit("editor_insert_rejected");
                        }
                    }
                    Key::Bs => {
                        if r.backspace() {
                            stats.hit("editor_backspace");
                        }
                    }
                    Key::Left => {
                        r.left();
                    }
                    Key::Right => {
                        r.right();
                    }
                    _ => checked = false,
                }
                if checked {
                    stats.hit("editor_checked");
                    // intermediate bytes of the key must not change the line
                    for c in &calls[..calls.len() - 1] {
                        if c.after.text != before.text || c.after.cursor != before.cursor {
                            v.push(Viol::new(
                                format!("{}/line-changed-mid-key", p),
                                format!("{}: {:?}@{} -> {:?}@{}", e.render(), btext, before.cursor, c.after.text, c.after.cursor),
                            ));
                        }
                    }
                    let got = chars_of(&after.text);
                    if got.as_ref() != Some(&r.line) || after.cursor != r.cursor {
                        v.push(Viol::new(
                            format!("{}/editor-{}", p, ev_class(e)),
                            format!(
                                "{} on {:?}@{} (cb {}): got {:?}@{}, ideal editor has {:?}@{}",
                                e.render(),
                                btext,
                                before.cursor,
                                self.cfg.cb,
                                String::from_utf8_lossy(&after.text),
                                after.cursor,
                                r.text(),
                                r.cursor
                            ),
                        ));
                    }
                }
            } else {
                // API calls never touch the line
                if after.text != before.text || after.cursor != before.cursor {
                    v.push(Viol::new(
                        format!("{}/line-changed-by-api-call", p),
                        format!("{}: {:?}@{} -> {:?}@{}", e.render(), btext, before.cursor, after.text, after.cursor),
                    ));
                }
            }
        }

        // ---- C10 history
        if mon.history {
            if let (Some(eb), Some(ea)) = (hist_entries(&before.hist), hist_entries(&after.hist)) {
                let pb = hist_pos(&eb, before.hcur).unwrap_or(None);
                let pa = hist_pos(&ea, after.hcur).unwrap_or(None);
                match e {
                    Ev::Key(k, _)
                        if k.is_enter()
                            && !(matches!(k, Key::Lf) && bpend == b'\r')
                            && !(matches!(k, Key::Cr) && bpend == b'\n') =>
                    {
                        stats.hit("history_submit");
                        let (want, recorded) = hist_push(&eb, &btext, self.cfg.hb);
                        if recorded {
                            stats.hit("history_recorded");
                            if eb.len() + 1 > want.len() + 1 {
                                stats.hit("history_evict_multi");
                            }
                            if eb.contains(&btext) {
                                stats.hit("history_duplicate");
                            }
                            if btext.len() != btext.chars().count() {
                                stats.hit("history_multibyte_entry");
                            }
                        } else {
                            stats.hit("history_not_recorded");
                        }
                        // a line of blanks only: "empty lines are not recorded" can be read either way (it has no
                        // token, but it is not of length zero): recorded like any line, or ignored like an empty one
                        let blank_only = !btext.is_empty() && btext.bytes().all(|b| b == b' ');
                        if blank_only && ea == eb && (pa.is_none() || pa == pb) {
                            stats.hit("history_blank_line_not_recorded");
                        } else if ea != want {
                            v.push(Viol::new(
                                format!("{}/history-after-submit", p),
                                format!("history {:?} + {:?} (hb {}): got {:?}, expected {:?}", eb, btext, self.cfg.hb, ea, want),
                            ));
                        } else if recorded && pa.is_some() {
                            v.push(Viol::new(
                                format!("{}/navigation-not-reset", p),
                                format!("after submitting {:?} navigation position is {:?}", btext, pa),
                            ));
                        } else if !recorded && pa.is_some() && pa != pb {
                            v.push(Viol::new(
                                format!("{}/navigation-moved", p),
                                format!("unrecorded Enter moved navigation {:?} -> {:?}", pb, pa),
                            ));
                        }
                    }
                    Ev::Key(Key::Up, _) | Ev::Key(Key::Down, _) => {
                        let up = matches!(e, Ev::Key(Key::Up, _));
                        if ea != eb {
                            v.push(Viol::new(format!("{}/history-changed-by-navigation", p), format!("{:?} -> {:?}", eb, ea)));
                        }
                        // admissible (position, Option<line>) outcomes; None line = unchanged
                        let mut adm: Vec<(Option<usize>, Option<String>)> = vec![];
                        if up {
                            match pb {
                                None if !eb.is_empty() => adm.push((Some(eb.len() - 1), Some(eb[eb.len() - 1].clone()))),
                                Some(i) if i > 0 => adm.push((Some(i - 1), Some(eb[i - 1].clone()))),
                                other => adm.push((other, None)),
                            }
                        } else {
                            match pb {
                                Some(i) if i + 1 < eb.len() => adm.push((Some(i + 1), Some(eb[i + 1].clone()))),
                                Some(_) => adm.push((None, Some(String::new()))),
                                None => {
                                    adm.push((None, Some(String::new())));
                                    adm.push((None, None));
                                }
                            }
                        }
                        stats.hit(if up { "history_up" } else { "history_down" });
                        let mut ok = false;
                        for (pos, line) in &adm {
                            // where the cursor stands in a recalled line is not part of the statement (C06 ties
                            // the terminal to it); an untouched line keeps its cursor
                            let (wl, cursor_ok) = match line {
                                Some(l) => (l.clone().into_bytes(), after.cursor <= l.chars().count()),
                                None => (before.text.clone(), after.cursor == before.cursor),
                            };
                            if *pos == pa && after.text == wl && cursor_ok {
                                ok = true;
                                if let Some(l) = line {
                                    if !l.is_empty() {
                                        stats.hit("history_recall");
                                        if l.len() != l.chars().count() {
                                            stats.hit("history_recall_multibyte");
                                        }
                                    }
                                }
                            }
                        }
                        if !ok {
                            v.push(Viol::new(
                                format!("{}/navigation-{}", p, if up { "up" } else { "down" }),
                                format!(
                                    "history {:?} pos {:?}, line {:?}: got line {:?}@{} pos {:?}, admissible {:?}",
                                    eb,
                                    pb,
                                    btext,
                                    String::from_utf8_lossy(&after.text),
                                    after.cursor,
                                    pa,
                                    adm
                                ),
                            ));
                        }
                    }
                    _ => {
                        if ea != eb {
                            v.push(Viol::new(
                                format!("{}/history-changed-without-submit", p),
                                format!("{}: {:?} -> {:?}", e.render(), eb, ea),
                            ));
                        }
                    }
                }
            }
        }

        // ---- C11 completion (also the Tab part of C16)
        if mon.complete {
            if let Ev::Key(Key::Tab, _) = e {
                stats.hit("tab");
                let spec = CompletionSpec { names: self.cfg.names.clone(), help_candidate: if self.cfg.help_on { Some(true) } else { None } };
                if let Some(at) = after.text_str() {
                    if at != btext {
                        stats.hit("tab_changed_line");
                    }
                    if let Err(m) = completion_admissible(&spec, &btext, self.cfg.cb, at) {
                        v.push(Viol::new(format!("{}/completion", p), format!("Tab on {:?}@{} (cb {}): {}", btext, before.cursor, self.cfg.cb, m)));
                    }
                }
            }
        }
        if mon.tab_noop {
            if let Ev::Key(Key::Tab, _) = e {
                stats.hit("tab_noop_checked");
                if after.text != before.text || after.cursor != before.cursor || last.term_line != bterm.trimmed() || last.term_col != bterm.col {
                    v.push(Viol::new(format!("{}/tab-not-inert", p), format!("Tab changed {:?}@{} -> {:?}@{} / wrote {:?}", btext, before.cursor, after.text, after.cursor, calls.iter().map(|c| c.sink.clone()).collect::<Vec<_>>())));
                }
            }
        }
        if mon.ignored_inert {
            if let Ev::Key(Key::Ignored(b), _) = e {
                stats.hit("ignored_sequences_checked");
                if after.text != before.text
                    || after.cursor != before.cursor
                    || last.term_line != bterm.trimmed()
                    || last.term_col != bterm.col
                    || !handler_calls.is_empty()
                {
                    v.push(Viol::new(
                        format!("{}/ignored-sequence-leaked", p),
                        format!("bytes {:02X?}: line {:?}@{} -> {:?}@{}, screen {:?}@{} -> {:?}@{}", b, btext, before.cursor, String::from_utf8_lossy(&after.text), after.cursor, bterm.trimmed(), bterm.col, last.term_line, last.term_col),
                    ));
                }
            }
        }
        if mon.up_down_noop {
            if let Ev::Key(Key::Up, _) | Ev::Key(Key::Down, _) = e {
                stats.hit("updown_noop_checked");
                if after.text != before.text || after.cursor != before.cursor || last.term_line != bterm.trimmed() || last.term_col != bterm.col {
                    v.push(Viol::new(format!("{}/updown-not-inert", p), format!("{} changed {:?}@{} -> {:?}@{}", e.render(), btext, before.cursor, after.text, after.cursor)));
                }
            }
        }

        // ---- C13 framing of Cli::write, judged on the emulated screen
        if mon.framing {
            if let Ev::Write(script) = e {
                stats.hit("framing_write");
                let bytes = sink_bytes(&last.sink);
                let body = framed(&script_out(script));
                let back = "\x1b[D".repeat(btext.chars().count() - before.cursor.min(btext.chars().count()));
                let want_bytes = format!("\r\x1b[2K{}{}{}{}", body, after.prompt, btext, back);
                let got = screen_effect(before.prompt, &btext, before.cursor, &bytes);
                let want = screen_effect(before.prompt, &btext, before.cursor, want_bytes.as_bytes());
                if after.text != before.text || after.cursor != before.cursor {
                    v.push(Viol::new(format!("{}/write-changed-line", p), format!("{:?}@{} -> {:?}@{}", btext, before.cursor, after.text, after.cursor)));
                }
                if let Some(u) = &got.unknown {
                    v.push(Viol::new("MACHINERY/emulator-unknown-sequence", u.clone()));
                } else if got != want {
                    v.push(Viol::new(
                        format!("{}/write-framing", p),
                        format!("{}: screen rows {:?} + {:?}@{}, expected rows {:?} + {:?}@{}", e.render(), got.done, got.cur, got.col, want.done, want.cur, want.col),
                    ));
                }
            }
        }
        v
    }
}

pub fn ev_class(e: &Ev) -> &'static str {
    match e {
        Ev::Key(Key::Ch(_), _) => "char",
        Ev::Key(Key::Bs, _) => "backspace",
        Ev::Key(Key::Left, _) => "left",
        Ev::Key(Key::Right, _) => "right",
        Ev::Key(Key::Up, _) => "up",
        Ev::Key(Key::Down, _) => "down",
        Ev::Key(Key::Tab, _) => "tab",
        Ev::Key(Key::Cr, _) | Ev::Key(Key::Lf, _) => "enter",
        Ev::Key(Key::Raw(_), _) => "raw-byte",
        Ev::Key(Key::Ignored(_), _) => "ignored-sequence",
        Ev::Write(_) => "write",
        Ev::SetPrompt(_) => "set-prompt",
    }
}

impl<C: Autocomplete + Help> Model for SessModel<C> {
    type State = Sess;
    type Key = SKey;
    type Event = Ev;

    fn name(&self) -> String {
        self.cfg.label.clone()
    }

    fn inits(&self) -> Vec<(String, Sess)> {
        let base = if self.cfg.deprecated_ctor {
            new_sess_deprecated(self.cfg.cb, self.cfg.hb, self.cfg.short_sink)
        } else {
            new_sess(self.cfg.cb, self.cfg.hb, self.cfg.prompt, self.cfg.short_sink)
        };
        let mut v = vec![("initial".to_string(), base.clone())];
        for (label, evs) in &self.cfg.prefilled {
            let mut s = base.clone();
            for e in evs {
                apply_in_place::<C>(&mut s, e);
            }
            v.push((label.clone(), s));
        }
        for (label, evs, marks) in &self.cfg.prefilled_marks {
            let mut s = base.clone();
            let mut mi = 0usize;
            for (j, e) in evs.iter().enumerate() {
                apply_in_place::<C>(&mut s, e);
                while mi < marks.len() && marks[mi] < j {
                    mi += 1;
                }
                if mi < marks.len() && marks[mi] == j {
                    v.push((format!("{} @{}", label, j + 1), s.clone()));
                }
            }
        }
        for (label, evs, from) in &self.cfg.prefilled_sweep {
            let mut s = base.clone();
            for (j, e) in evs.iter().enumerate() {
                apply_in_place::<C>(&mut s, e);
                if j >= *from {
                    v.push((format!("{} @{}", label, j + 1), s.clone()));
                }
            }
        }
        v
    }

    fn events(&self) -> Vec<Ev> {
        self.cfg.events.clone()
    }

    fn checked_prefill(&self) -> Vec<(String, Vec<Ev>)> {
        let mut v = self.cfg.prefilled.clone();
        v.extend(self.cfg.prefilled_sweep.iter().map(|(l, e, _)| (l.clone(), e.clone())));
        v.extend(self.cfg.prefilled_marks.iter().map(|(l, e, _)| (l.clone(), e.clone())));
        v
    }

    fn key(&self, s: &Sess) -> SKey {
        let mut k = skey(s);
        if !(self.cfg.mon.term || self.cfg.mon.framing) {
            // the screen is not observed by this check's monitors: keep it out of the key so that a
            // screen defect cannot inflate the state space of an unrelated exploration
            k.tline.clear();
            k.tcol = 0;
        }
        if self.cfg.refine {
            let probe = self.cfg.refine_probe.as_ref().unwrap_or(&self.cfg.events);
            k.sig = behaviour_sig::<C>(s, probe, self.cfg.mon.term || self.cfg.mon.framing, self.cfg.refine_depth.max(1));
        }
        k
    }

    fn render_event(&self, e: &Ev) -> String {
        e.render()
    }

    fn step(&self, s: &Sess, e: &Ev, stats: &mut Stats) -> StepOut<Sess> {
        let before = snap(&s.cli);
        let (n, calls) = apply::<C>(s, e);
        let mut viols = self.check(&before, &s.term, s.pend, e, &calls, stats);
        stats.hit(match ev_class(e) {
            "char" => "ev_char",
            "backspace" => "ev_backspace",
            "left" => "ev_left",
            "right" => "ev_right",
            "up" => "ev_up",
            "down" => "ev_down",
            "tab" => "ev_tab",
            "enter" => "ev_enter",
            "raw-byte" => "ev_raw",
            "ignored-sequence" => "ev_ignored",
            "write" => "ev_write",
            _ => "ev_set_prompt",
        });
        if self.cfg.poison && viols.is_empty() {
            let base_key = self.key(&n);
            for pb in [0xFFu8, 0x22u8] {
                let mut ps = s.clone();
                poison(&mut ps, pb);
                let (pn, pcalls) = apply::<C>(&ps, e);
                stats.hit("poison_runs");
                let pv = self.check(&before, &s.term, s.pend, e, &pcalls, &mut Stats::default());
                if !pv.is_empty() {
                    // a property violation that shows only with different garbage
                    for mut x in pv {
                        x.detail = format!("(dead bytes = {:#x}) {}", pb, x.detail);
                        viols.push(x);
                    }
                    break;
                }
                let same = self.key(&pn) == base_key
                    && pcalls.len() == calls.len()
                    && pcalls
                        .iter()
                        .zip(calls.iter())
                        .all(|(a, b)| a.sink == b.sink && a.handler == b.handler && a.ok == b.ok);
                if !same {
                    viols.push(Viol::new(
                        "MACHINERY/dead-byte-dependence",
                        format!("{} behaves differently when dead buffer bytes are {:#x}", e.render(), pb),
                    ));
                    break;
                }
            }
        }
        if let Some(set) = &self.cfg.digest {
            use std::hash::{Hash, Hasher};
            let mut h = std::collections::hash_map::DefaultHasher::new();
            (&before.text, before.cursor, before.prompt, canon_dec(before.dec), s.term.trimmed(), s.term.col).hash(&mut h);
            e.hash(&mut h);
            for c in &calls {
                sink_bytes(&c.sink).hash(&mut h);
                c.ok.hash(&mut h);
                for hc in &c.handler {
                    hc.name.hash(&mut h);
                    hc.args.hash(&mut h);
                }
            }
            let a = &calls.last().unwrap().after;
            (&a.text, a.cursor, a.prompt, canon_dec(a.dec), n.term.trimmed(), n.term.col).hash(&mut h);
            set.lock().unwrap().insert(h.finish());
        }
        let mut n = n;
        n.term.lfs = 0; // not part of the state; avoid unbounded growth
        let expand = viols.is_empty();
        StepOut::new(if expand { Some(n) } else { None }, viols)
    }
}
