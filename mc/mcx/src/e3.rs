//! E3: complete enumeration of bounded input spaces for the pure functions (tokeniser, argument
//! classifier, UTF-8 helpers), each case run on the real function and on the reference.

use crate::refs::*;
use crate::report::EnumOutcome;
use crate::session::*;
use embedded_cli::__verif::{utils, Tokens, Utf8Accum};
use embedded_cli::arguments::ArgList;
use embedded_cli::command::RawCommand;
use rayon::prelude::*;
use serde_json::json;
use std::time::Instant;

/// number of strings of length <= max_len over an alphabet of k symbols
pub fn count_strings(k: u64, max_len: u32) -> u64 {
    (0..=max_len).map(|l| k.pow(l)).sum()
}

/// `n` indices below `total`, chosen by the seed (only selects which explored cases are shown as samples)
pub fn sample_indices(seed: u64, total: u64, n: usize) -> Vec<u64> {
    let mut x = seed ^ 0x9E37_79B9_7F4A_7C15;
    (0..n)
        .map(|_| {
            x = x.wrapping_mul(6364136223846793005).wrapping_add(1442695040888963407);
            if total == 0 {
                0
            } else {
                (x >> 11) % total
            }
        })
        .collect()
}

/// the idx-th list over `items` (shortest first)
pub fn nth_list(items: &[String], mut idx: u64) -> Vec<String> {
    let k = items.len() as u64;
    let mut len = 0u32;
    loop {
        let c = k.pow(len);
        if idx < c {
            break;
        }
        idx -= c;
        len += 1;
    }
    let mut list = vec![String::new(); len as usize];
    for i in (0..len as usize).rev() {
        list[i] = items[(idx % k) as usize].clone();
        idx /= k;
    }
    list
}

pub static SEED: std::sync::atomic::AtomicU64 = std::sync::atomic::AtomicU64::new(0);
pub fn seed() -> u64 {
    SEED.load(std::sync::atomic::Ordering::Relaxed)
}

/// the idx-th string (shortest first, then lexicographic by symbol index)
pub fn nth_string(alphabet: &[&str], mut idx: u64, out: &mut String) {
    out.clear();
    let k = alphabet.len() as u64;
    let mut len = 0u32;
    loop {
        let c = k.pow(len);
        if idx < c {
            break;
        }
        idx -= c;
        len += 1;
    }
    let mut digits = vec![0usize; len as usize];
    for i in (0..len as usize).rev() {
        digits[i] = (idx % k) as usize;
        idx /= k;
    }
    for d in digits {
        out.push_str(alphabet[d]);
    }
}

pub fn real_tokens(line: &str) -> Result<Vec<String>, String> {
    let mut buf = line.as_bytes().to_vec();
    let r = std::panic::catch_unwind(std::panic::AssertUnwindSafe(|| {
        let s = std::str::from_utf8_mut(&mut buf).unwrap();
        let t = Tokens::new(s);
        let mut v = vec![];
        let mut bad = false;
        for tok in t.iter() {
            match std::str::from_utf8(tok.as_bytes()) {
                Ok(x) => v.push(x.to_string()),
                Err(_) => {
                    bad = true;
                    v.push(String::from_utf8_lossy(tok.as_bytes()).into_owned())
                }
            }
        }
        (v, bad, t.is_empty())
    }));
    match r {
        Ok((v, bad, is_empty)) => {
            if bad {
                Err(format!("token not UTF-8: {:?}", v))
            } else if is_empty != v.is_empty() {
                Err(format!("is_empty() = {} but iter() yields {:?}", is_empty, v))
            } else {
                Ok(v)
            }
        }
        Err(_) => Err(format!("panic: {}", LAST_PANIC.with(|p| p.borrow_mut().take()).unwrap_or_default())),
    }
}

pub const C07_SIGMA: [&str; 6] = ["a", " ", "\"", "\\", "-", "é"];

/// characters whose encodings contain the bytes 0x85 / 0xA0 (white space in Latin-1) and a 3-byte blank
pub const C07_SIGMA2: [&str; 7] = ["a", " ", "\"", "à", "\u{85}", "\u{3000}", "\u{a0}"];

/// ASCII characters a tokeniser could be tempted to treat specially although the rules do not: tab, single
/// quote, `=`, `#`, and `n` (so that backslash-n, backslash-a occur next to backslash-quote)
pub const C07_SIGMA3: [&str; 9] = ["a", " ", "\"", "\\", "\t", "'", "=", "#", "n"];

pub fn c07_lines(sigma: &'static [&'static str], max_len: u32) -> EnumOutcome {
    let t0 = Instant::now();
    let total = count_strings(sigma.len() as u64, max_len);
    let chunk = 4096u64;
    let nchunks = (total + chunk - 1) / chunk;
    let mut out = (0..nchunks)
        .into_par_iter()
        .map(|ci| {
            let mut o = EnumOutcome::default();
            let mut line = String::new();
            for idx in ci * chunk..((ci + 1) * chunk).min(total) {
                nth_string(sigma, idx, &mut line);
                o.evaluations += 1;
                let adm = tokens_adm(&line);
                if line.contains('"') || adm.iter().any(|t| t.len() >= 2) {
                    o.distinct_nontrivial += 1;
                }
                if line.starts_with("\"\"") || line.contains(" \"\"") {
                    o.stats.hit("empty_quoted_token");
                }
                if adm.len() > 1 {
                    o.stats.hit("underspecified_escape");
                }
                match real_tokens(&line) {
                    Ok(got) => {
                        if !adm.contains(&got) {
                            let cls = if adm.iter().any(|a| a.iter().any(|t| t.is_empty())) {
                                "C07/empty-token"
                            } else if line.contains('\\') {
                                "C07/escape"
                            } else if line.contains('"') {
                                "C07/quoting"
                            } else {
                                "C07/splitting"
                            };
                            o.viol(cls, format!("line {:?}: Tokens::new gives {:?}, rules give {:?}", line, got, adm), vec![line.clone()]);
                        }
                    }
                    Err(m) => o.viol("C07/tokeniser-failure", format!("line {:?}: {}", line, m), vec![line.clone()]),
                }
            }
            o
        })
        .reduce(EnumOutcome::default, |mut a, b| {
            a.merge(b);
            a
        });
    out.name = format!("tokeniser: every line of <= {} symbols over {:?}", max_len, sigma);
    out.rule = "all strings enumerated by index (count checked against the closed form sum k^l); non-trivial = contains a quote or yields >= 2 tokens".into();
    out.expected = Some(total);
    out.exhaustive = out.evaluations == total;
    out.samples = sample_indices(seed(), total, 4)
        .into_iter()
        .map(|i| {
            let mut l = String::new();
            nth_string(sigma, i, &mut l);
            let toks = real_tokens(&l).unwrap_or_default();
            json!({"line": l, "tokens": toks})
        })
        .collect();
    out.wall_s = t0.elapsed().as_secs_f64();
    out
}

/// every line of <= max_len symbols typed into a real Cli and observed in the handler
pub fn c07_typed(max_len: u32) -> EnumOutcome {
    let t0 = Instant::now();
    let total = count_strings(6, max_len);
    let chunk = 1024u64;
    let nchunks = (total + chunk - 1) / chunk;
    let base = new_sess(64, 0, "$ ", false);
    let mut out = (0..nchunks)
        .into_par_iter()
        .map(|ci| {
            let mut o = EnumOutcome::default();
            let mut line = String::new();
            for idx in ci * chunk..((ci + 1) * chunk).min(total) {
                nth_string(&C07_SIGMA, idx, &mut line);
                o.evaluations += 1;
                let adm = tokens_adm(&line);
                let mut s = base.clone();
                let mut bytes = line.as_bytes().to_vec();
                bytes.push(b'\n');
                let (calls, _, st) = feed::<RawCommand<'static>>(&mut s, &bytes, HMode::Silent);
                if let Err(m) = st {
                    o.viol("C07/session-failure", format!("line {:?}: {}", line, m), vec![line.clone()]);
                    continue;
                }
                // what the handler saw, re-assembled into a token list; only value-shaped tokens can be
                // compared exactly, so compare through the classifier reference
                let ok = adm.iter().any(|t| {
                    if t.is_empty() {
                        calls.is_empty()
                    } else if help_kind(t) != HelpKind::NotHelp && cfg!(feature = "help") {
                        true
                    } else {
                        calls.len() == 1 && calls[0].name == t[0] && calls[0].args == classify(&t[1..])
                    }
                });
                if adm.iter().any(|t| t.len() >= 2) {
                    o.distinct_nontrivial += 1;
                }
                if !ok {
                    o.viol(
                        "C07/typed-line-tokens",
                        format!("typed {:?}: handler saw {:?}, rules give {:?}", line, calls, adm),
                        vec![line.clone()],
                    );
                }
            }
            o
        })
        .reduce(EnumOutcome::default, |mut a, b| {
            a.merge(b);
            a
        });
    out.name = format!("tokeniser through Cli: every line of <= {} symbols typed and submitted", max_len);
    out.rule = "all strings by index; non-trivial = yields >= 2 tokens".into();
    out.expected = Some(total);
    out.exhaustive = out.evaluations == total;
    out.samples = sample_indices(seed(), total, 3)
        .into_iter()
        .map(|i| {
            let mut l = String::new();
            nth_string(&C07_SIGMA, i, &mut l);
            json!({"typed_line": l, "rules_give": tokens_adm(&l)})
        })
        .collect();
    out.wall_s = t0.elapsed().as_secs_f64();
    out
}

/// round trip: every list of <= max_items strings of <= max_sym symbols, rendered quoted, tokenises back
pub fn c07_roundtrip(max_items: u32, max_sym: u32) -> EnumOutcome {
    let t0 = Instant::now();
    let nstr = count_strings(6, max_sym);
    let total = count_strings(nstr, max_items);
    let chunk = 2048u64;
    let nchunks = (total + chunk - 1) / chunk;
    let mut strs: Vec<String> = vec![];
    let mut tmp = String::new();
    for i in 0..nstr {
        nth_string(&C07_SIGMA, i, &mut tmp);
        strs.push(tmp.clone());
    }
    let strs_ref: Vec<&str> = strs.iter().map(|s| s.as_str()).collect();
    let mut out = (0..nchunks)
        .into_par_iter()
        .map(|ci| {
            let mut o = EnumOutcome::default();
            for idx in ci * chunk..((ci + 1) * chunk).min(total) {
                // decode idx as a list over `strs`
                let mut rem = idx;
                let mut len = 0u32;
                loop {
                    let c = nstr.pow(len);
                    if rem < c {
                        break;
                    }
                    rem -= c;
                    len += 1;
                }
                let mut list = vec![String::new(); len as usize];
                for i in (0..len as usize).rev() {
                    list[i] = strs_ref[(rem % nstr) as usize].to_string();
                    rem /= nstr;
                }
                o.evaluations += 1;
                if list.iter().any(|s| s.is_empty() || s.contains('"') || s.contains('\\') || s.contains(' ')) {
                    o.distinct_nontrivial += 1;
                }
                let line = render_list(&list);
                match real_tokens(&line) {
                    Ok(got) => {
                        if got != list {
                            o.viol(
                                "C07/round-trip",
                                format!("list {:?} rendered {:?} tokenises to {:?}", list, line, got),
                                vec![line.clone()],
                            );
                        }
                    }
                    Err(m) => o.viol("C07/tokeniser-failure", format!("line {:?}: {}", line, m), vec![line.clone()]),
                }
            }
            o
        })
        .reduce(EnumOutcome::default, |mut a, b| {
            a.merge(b);
            a
        });
    out.name = format!("round trip: every list of <= {} strings of <= {} symbols", max_items, max_sym);
    out.rule = "all lists by index; non-trivial = some string is empty or contains quote/backslash/space".into();
    out.expected = Some(total);
    out.exhaustive = out.evaluations == total;
    out.samples = sample_indices(seed(), total, 3)
        .into_iter()
        .map(|i| {
            let l = nth_list(&strs, i);
            json!({"list": l, "rendered": render_list(&l)})
        })
        .collect();
    out.wall_s = t0.elapsed().as_secs_f64();
    out
}

// ------------------------------------------------------------------ C08

pub const C08_SIGMA: [&str; 6] = ["-", "a", "é", "中", "𝄞", " "];

pub fn real_classify(tokens: &[String]) -> Result<Vec<RArg>, String> {
    let raw = tokens.join("\0");
    let r = std::panic::catch_unwind(std::panic::AssertUnwindSafe(|| {
        let t = Tokens::from_raw(&raw, tokens.is_empty());
        let list = ArgList::new(t);
        let mut v = vec![];
        let mut bad = false;
        for a in list.args() {
            use embedded_cli::arguments::Arg;
            match &a {
                Arg::LongOption(s) | Arg::Value(s) => {
                    if std::str::from_utf8(s.as_bytes()).is_err() {
                        bad = true;
                        continue;
                    }
                }
                Arg::ShortOption(c) => {
                    let u = *c as u32;
                    if u > 0x10FFFF || (0xD800..=0xDFFF).contains(&u) {
                        bad = true;
                        continue;
                    }
                }
                _ => {}
            }
            v.push(render_arg(&a));
        }
        (v, bad)
    }));
    match r {
        Ok((v, false)) => Ok(v),
        Ok((v, true)) => Err(format!("ill-formed string or char in items {:?}", v)),
        Err(_) => Err(format!("panic: {}", LAST_PANIC.with(|p| p.borrow_mut().take()).unwrap_or_default())),
    }
}

pub const C08_ASCII: [&str; 7] = ["-", "a", "1", "=", "0", "Z", "."];
pub const C08_PRINTABLE: [&str; 95] = [" ", "!", "\"", "#", "$", "%", "&", "'", "(", ")", "*", "+", ",", "-", ".", "/", "0", "1", "2", "3", "4", "5", "6", "7", "8", "9", ":", ";", "<", "=", ">", "?", "@", "A", "B", "C", "D", "E", "F", "G", "H", "I", "J", "K", "L", "M", "N", "O", "P", "Q", "R", "S", "T", "U", "V", "W", "X", "Y", "Z", "[", "\\", "]", "^", "_", "`", "a", "b", "c", "d", "e", "f", "g", "h", "i", "j", "k", "l", "m", "n", "o", "p", "q", "r", "s", "t", "u", "v", "w", "x", "y", "z", "{", "|", "}", "~"];
pub const C08_BOUNDARY: [&str; 10] = ["-", "a", "\u{7f}", "\u{80}", "\u{7ff}", "\u{800}", "\u{7fff}", "\u{8000}", "\u{ffff}", "\u{10ffff}"];

pub fn c08_lists(sigma: &[&str], max_items: u32, max_sym: u32) -> EnumOutcome {
    let t0 = Instant::now();
    let ntok = count_strings(sigma.len() as u64, max_sym);
    let total = count_strings(ntok, max_items);
    let mut toks: Vec<String> = vec![];
    let mut tmp = String::new();
    for i in 0..ntok {
        nth_string(sigma, i, &mut tmp);
        toks.push(tmp.clone());
    }
    let chunk = 8192u64;
    let nchunks = (total + chunk - 1) / chunk;
    let mut out = (0..nchunks)
        .into_par_iter()
        .map(|ci| {
            let mut o = EnumOutcome::default();
            for idx in ci * chunk..((ci + 1) * chunk).min(total) {
                let mut rem = idx;
                let mut len = 0u32;
                loop {
                    let c = ntok.pow(len);
                    if rem < c {
                        break;
                    }
                    rem -= c;
                    len += 1;
                }
                let mut list = vec![String::new(); len as usize];
                for i in (0..len as usize).rev() {
                    list[i] = toks[(rem % ntok) as usize].clone();
                    rem /= ntok;
                }
                o.evaluations += 1;
                let want = classify(&list);
                if want.iter().any(|a| !matches!(a, RArg::Value(_))) {
                    o.distinct_nontrivial += 1;
                }
                if list.iter().any(|t| t == "--") {
                    o.stats.hit("double_dash");
                }
                if want.iter().any(|a| matches!(a, RArg::Short(c) if c.len_utf8() > 1)) {
                    o.stats.hit("multibyte_short_option");
                }
                match real_classify(&list) {
                    Ok(got) => {
                        if got != want {
                            let cls = if list.iter().any(|t| t == "--") {
                                "C08/after-double-dash"
                            } else if want.iter().any(|a| matches!(a, RArg::Short(_))) {
                                "C08/short-cluster"
                            } else if want.iter().any(|a| matches!(a, RArg::Long(_))) {
                                "C08/long-option"
                            } else {
                                "C08/value"
                            };
                            o.viol(cls, format!("tokens {:?}: args() gives {:?}, rules give {:?}", list, got, want), list.clone());
                        } else if !rejoin_ok(&list, &got) {
                            o.viol("C08/rejoin", format!("tokens {:?}: items {:?} do not spell the tokens", list, got), list.clone());
                        }
                    }
                    Err(m) => o.viol("C08/classifier-failure", format!("tokens {:?}: {}", list, m), list.clone()),
                }
            }
            o
        })
        .reduce(EnumOutcome::default, |mut a, b| {
            a.merge(b);
            a
        });
    out.name = format!("classifier: every list of <= {} tokens of <= {} symbols over {:?}", max_items, max_sym, sigma);
    out.rule = "all token lists by index through Tokens::from_raw + ArgList::args(); non-trivial = some item is not a plain value".into();
    out.expected = Some(total);
    out.exhaustive = out.evaluations == total;
    out.samples = sample_indices(seed(), total, 4)
        .into_iter()
        .map(|i| {
            let l = nth_list(&toks, i);
            json!({"tokens": l, "classified": format!("{:?}", classify(&l))})
        })
        .collect();
    out.wall_s = t0.elapsed().as_secs_f64();
    out
}

/// the same lists typed (quoted) after a command name into a Cli
pub fn c08_typed(max_items: u32, max_sym: u32) -> EnumOutcome {
    let t0 = Instant::now();
    let ntok = count_strings(6, max_sym);
    let total = count_strings(ntok, max_items);
    let mut toks: Vec<String> = vec![];
    let mut tmp = String::new();
    for i in 0..ntok {
        nth_string(&C08_SIGMA, i, &mut tmp);
        toks.push(tmp.clone());
    }
    let base = new_sess(96, 0, "$ ", false);
    let chunk = 512u64;
    let nchunks = (total + chunk - 1) / chunk;
    let mut out = (0..nchunks)
        .into_par_iter()
        .map(|ci| {
            let mut o = EnumOutcome::default();
            for idx in ci * chunk..((ci + 1) * chunk).min(total) {
                let mut rem = idx;
                let mut len = 0u32;
                loop {
                    let c = ntok.pow(len);
                    if rem < c {
                        break;
                    }
                    rem -= c;
                    len += 1;
                }
                let mut list = vec![String::new(); len as usize];
                for i in (0..len as usize).rev() {
                    list[i] = toks[(rem % ntok) as usize].clone();
                    rem /= ntok;
                }
                o.evaluations += 1;
                let want = classify(&list);
                if want.iter().any(|a| !matches!(a, RArg::Value(_))) {
                    o.distinct_nontrivial += 1;
                }
                let mut line = String::from("x");
                if !list.is_empty() {
                    line.push(' ');
                    line.push_str(&render_list(&list));
                }
                line.push('\n');
                let mut s = base.clone();
                let (calls, _, st) = feed::<RawCommand<'static>>(&mut s, line.as_bytes(), HMode::Silent);
                if let Err(m) = st {
                    o.viol("C08/session-failure", format!("line {:?}: {}", line, m), vec![line.clone()]);
                    continue;
                }
                let mut full = vec!["x".to_string()];
                full.extend(list.iter().cloned());
                if cfg!(feature = "help") && help_kind(&full) != HelpKind::NotHelp {
                    o.stats.hit("help_shaped_skipped");
                    continue;
                }
                if calls.len() != 1 || calls[0].name != "x" || calls[0].args != want {
                    o.viol("C08/typed-arguments", format!("typed {:?}: handler saw {:?}, rules give {:?}", line, calls, want), vec![line.clone()]);
                }
            }
            o
        })
        .reduce(EnumOutcome::default, |mut a, b| {
            a.merge(b);
            a
        });
    out.name = format!("classifier through Cli: every list of <= {} tokens of <= {} symbols typed quoted after a command", max_items, max_sym);
    out.rule = "all lists by index; non-trivial = some item is not a plain value".into();
    out.expected = Some(total);
    out.exhaustive = out.evaluations == total;
    out.samples = sample_indices(seed(), total, 3)
        .into_iter()
        .map(|i| {
            let l = nth_list(&toks, i);
            json!({"typed": format!("x {}", render_list(&l))})
        })
        .collect();
    out.wall_s = t0.elapsed().as_secs_f64();
    out
}

// ------------------------------------------------------------------ C17

pub fn all_scalars() -> Vec<char> {
    let mut v = Vec::with_capacity(1_112_100);
    for u in 0x20u32..=0x10FFFF {
        if u == 0x7f {
            continue;
        }
        if let Some(c) = char::from_u32(u) {
            v.push(c);
        }
    }
    v
}

pub const NEIGHBOURS: [char; 4] = ['a', 'é', '中', '𝄞'];

pub fn c17_utils() -> EnumOutcome {
    let t0 = Instant::now();
    let scalars = all_scalars();
    let total = scalars.len() as u64;
    let mut out = scalars
        .par_chunks(4096)
        .map(|chunk| {
            let mut o = EnumOutcome::default();
            for &c in chunk {
                o.evaluations += 1;
                if c.len_utf8() > 1 {
                    o.distinct_nontrivial += 1;
                }
                let case = vec![format!("U+{:04X}", c as u32)];
                let r = std::panic::catch_unwind(std::panic::AssertUnwindSafe(|| {
                    let mut problems: Vec<(&'static str, String)> = vec![];
                    let mut b = [0u8; 4];
                    let mut sb = [0u8; 4];
                    let want = c.encode_utf8(&mut sb).to_string();
                    let enc = utils::encode_utf8(c, &mut b);
                    if enc.as_bytes() != want.as_bytes() {
                        problems.push(("C17/encode_utf8", format!("{:?} encodes to {:02X?}", c, enc.as_bytes())));
                    }
                    // accumulator fed its bytes
                    let mut acc = Utf8Accum::default();
                    let mut emitted: Vec<Vec<u8>> = vec![];
                    for (i, by) in want.as_bytes().iter().enumerate() {
                        if let Some(s) = acc.push_byte(*by) {
                            emitted.push(s.as_bytes().to_vec());
                            if i + 1 != want.len() {
                                problems.push(("C17/accumulator", format!("{:?}: emitted before the last byte", c)));
                            }
                        }
                    }
                    if emitted != vec![want.as_bytes().to_vec()] {
                        problems.push(("C17/accumulator", format!("{:?}: accumulator emitted {:02X?}", c, emitted)));
                    }
                    for &n in NEIGHBOURS.iter() {
                        for text in [format!("{}{}{}", n, c, n), format!("{}{}", c, n), format!("{}{}", n, c), format!("{}", c)] {
                            let chars: Vec<char> = text.chars().collect();
                            if utils::char_count(&text) != chars.len() {
                                problems.push(("C17/char_count", format!("{:?}: {}", text, utils::char_count(&text))));
                            }
                            for i in 0..=chars.len() + 1 {
                                let want_idx = text.char_indices().nth(i).map(|(p, _)| p);
                                if utils::char_byte_index(&text, i) != want_idx {
                                    problems.push((
                                        "C17/char_byte_index",
                                        format!("{:?}[{}]: {:?} vs {:?}", text, i, utils::char_byte_index(&text, i), want_idx),
                                    ));
                                }
                            }
                            match utils::char_pop_front(&text) {
                                Some((f, rest)) => {
                                    if f != chars[0] || rest != &text[chars[0].len_utf8()..] {
                                        problems.push(("C17/char_pop_front", format!("{:?}: ({:?}, {:?})", text, f, rest)));
                                    }
                                }
                                None => problems.push(("C17/char_pop_front", format!("{:?}: None", text))),
                            }
                        }
                        // common prefix against neighbours in code space (shared lead bytes) and width neighbours
                        let mut others: Vec<char> = vec![n];
                        for d in [1u32, 0x40, 0x1000] {
                            if let Some(x) = char::from_u32((c as u32).wrapping_add(d)) {
                                others.push(x);
                            }
                            if let Some(x) = (c as u32).checked_sub(d).and_then(char::from_u32) {
                                others.push(x);
                            }
                        }
                        for x in others {
                            for (l, r) in [
                                (format!("{}{}", n, c), format!("{}{}", n, x)),
                                (format!("{}{}", c, n), format!("{}{}", x, n)),
                                (format!("{}{}", c, c), format!("{}{}", c, x)),
                            ] {
                                let want_len: usize = l.chars().zip(r.chars()).take_while(|(a, b)| a == b).map(|(a, _)| a.len_utf8()).sum();
                                if utils::common_prefix_len(&l, &r) != want_len {
                                    problems.push((
                                        "C17/common_prefix_len",
                                        format!("{:?} vs {:?}: {} (expected {})", l, r, utils::common_prefix_len(&l, &r), want_len),
                                    ));
                                }
                            }
                        }
                    }
                    problems
                }));
                match r {
                    Ok(p) => {
                        for (cls, d) in p {
                            o.viol(cls, d, case.clone());
                        }
                    }
                    Err(_) => o.viol(
                        "C17/panic",
                        format!("{:?}: {}", c, LAST_PANIC.with(|p| p.borrow_mut().take()).unwrap_or_default()),
                        case.clone(),
                    ),
                }
            }
            o
        })
        .reduce(EnumOutcome::default, |mut a, b| {
            a.merge(b);
            a
        });
    out.name = "UTF-8 helpers: every scalar value >= U+0020 except U+007F".into();
    out.rule = "all 1 112 031 scalars x 4 neighbour widths through encode_utf8, char_pop_front, char_count, char_byte_index, common_prefix_len, Utf8Accum vs std; non-trivial = multi-byte scalar".into();
    out.expected = Some(1_112_031);
    out.exhaustive = out.evaluations == total && total == 1_112_031;
    out.samples = sample_indices(seed(), total, 5)
        .into_iter()
        .map(|i| {
            let c = scalars[i as usize];
            json!({"scalar": format!("U+{:04X}", c as u32), "utf8": format!("{:02X?}", c.to_string().as_bytes())})
        })
        .collect();
    out.wall_s = t0.elapsed().as_secs_f64();
    out
}

/// a Cli session per scalar c and neighbour n
pub fn c17_sessions(neighbours: &[char]) -> EnumOutcome {
    use embedded_cli::Command;
    #[derive(Debug, Command)]
    enum NoOpts {
        X,
    }
    let t0 = Instant::now();
    let scalars = all_scalars();
    let total = (scalars.len() * neighbours.len()) as u64;
    let base = new_sess(40, 40, "$ ", false);
    let mut out = scalars
        .par_chunks(2048)
        .map(|chunk| {
            let mut o = EnumOutcome::default();
            for &c in chunk {
                for &n in neighbours {
                    o.evaluations += 1;
                    if c.len_utf8() > 1 {
                        o.distinct_nontrivial += 1;
                    }
                    let case = vec![format!("U+{:04X}", c as u32), format!("neighbour {:?}", n)];
                    let special = matches!(c, ' ' | '"' | '\\' | '-' | 'h');
                    let mut s = base.clone();
                    let mut fail = |cls: &'static str, d: String, o: &mut EnumOutcome| o.viol(cls, d, case.clone());
                    // 1. type n c n: echo and editor content
                    let typed = format!("{}{}{}", n, c, n);
                    let (calls, echo, st) = feed::<RawCommand<'static>>(&mut s, typed.as_bytes(), HMode::Silent);
                    if st.is_err() || !calls.is_empty() {
                        fail("C17/typing", format!("{:?}: {:?} {:?}", typed, st, calls), &mut o);
                        continue;
                    }
                    if echo != typed.as_bytes() {
                        fail("C17/echo", format!("typed {:?}, echo {:02X?}", typed, echo), &mut o);
                        continue;
                    }
                    let sn = snap(&s.cli);
                    if sn.text != typed.as_bytes() || sn.cursor != 3 {
                        fail("C17/editor", format!("typed {:?}, editor {:?}@{}", typed, sn.text, sn.cursor), &mut o);
                        continue;
                    }
                    // 2. Left Left Right: cursor over c; Backspace removes c; retype it
                    let (_, _, st) = feed::<RawCommand<'static>>(&mut s, b"\x1b[D\x1b[D\x1b[C\x08", HMode::Silent);
                    let sn = snap(&s.cli);
                    let want = format!("{}{}", n, n);
                    if st.is_err() || sn.text != want.as_bytes() || sn.cursor != 1 {
                        fail("C17/move-delete", format!("after Left Left Right BS on {:?}: {:?}@{}", typed, String::from_utf8_lossy(&sn.text), sn.cursor), &mut o);
                        continue;
                    }
                    let (_, _, st) = feed::<RawCommand<'static>>(&mut s, c.to_string().as_bytes(), HMode::Silent);
                    let sn = snap(&s.cli);
                    if st.is_err() || sn.text != typed.as_bytes() || sn.cursor != 2 {
                        fail("C17/reinsert", format!("after retyping {:?}: {:?}@{}", c, String::from_utf8_lossy(&sn.text), sn.cursor), &mut o);
                        continue;
                    }
                    // clear the line (3 backspaces after moving right)
                    let (_, _, _) = feed::<RawCommand<'static>>(&mut s, b"\x1b[C\x08\x08\x08", HMode::Silent);
                    if !snap(&s.cli).text.is_empty() {
                        fail("C17/clear", "line not empty after deleting everything".into(), &mut o);
                        continue;
                    }
                    // 3. submit `c n` as command name with "c" as quoted argument (special ASCII handled by references)
                    let line = format!("{}{} \"{}\"", c, n, if c == '"' || c == '\\' { format!("\\{}", c) } else { c.to_string() });
                    let (calls, _, st) = feed::<RawCommand<'static>>(&mut s, format!("{}\n", line).as_bytes(), HMode::Silent);
                    let adm = tokens_adm(&line);
                    let ok = st.is_ok()
                        && adm.iter().any(|t| {
                            if t.is_empty() {
                                calls.is_empty()
                            } else if cfg!(feature = "help") && help_kind(t) != HelpKind::NotHelp {
                                true
                            } else {
                                calls.len() == 1 && calls[0].name == t[0] && calls[0].args == classify(&t[1..]) && !calls[0].bad_utf8
                            }
                        });
                    if !ok {
                        fail("C17/submit", format!("line {:?}: handler saw {:?} ({:?}), tokens {:?}", line, calls, st, adm), &mut o);
                        continue;
                    }
                    // 4. Up recalls it byte for byte
                    #[cfg(feature = "history")]
                    {
                        let (_, _, st) = feed::<RawCommand<'static>>(&mut s, b"\x1b[A", HMode::Silent);
                        let sn = snap(&s.cli);
                        if st.is_err() || sn.text != line.as_bytes() {
                            fail("C17/recall", format!("submitted {:?}, Up shows {:?}", line, String::from_utf8_lossy(&sn.text)), &mut o);
                            continue;
                        }
                        // clear by Down
                        let _ = feed::<RawCommand<'static>>(&mut s, b"\x1b[B", HMode::Silent);
                    }
                    // 4b. the scalar alone as the whole line (for a White_Space scalar the line consists of blank-looking
                    // characters only, yet it is a command name): dispatched, recorded, recalled
                    if !special && n == neighbours[0] {
                        for line in [c.to_string(), format!("{}{}", c, c)] {
                            let (calls, _, st) = feed::<RawCommand<'static>>(&mut s, format!("{}\n", line).as_bytes(), HMode::Silent);
                            if st.is_err() || calls.len() != 1 || calls[0].name != line || !calls[0].args.is_empty() {
                                fail("C17/submit-alone", format!("line {:?}: handler saw {:?} ({:?})", line, calls, st), &mut o);
                                continue;
                            }
                            #[cfg(feature = "history")]
                            {
                                let (_, _, st) = feed::<RawCommand<'static>>(&mut s, b"\x1b[A", HMode::Silent);
                                let sn = snap(&s.cli);
                                if st.is_err() || sn.text != line.as_bytes() {
                                    fail("C17/recall-alone", format!("submitted {:?}, Up shows {:?}", line, String::from_utf8_lossy(&sn.text)), &mut o);
                                }
                                let _ = feed::<RawCommand<'static>>(&mut s, b"\x1b[B", HMode::Silent);
                            }
                        }
                    }
                    // 5. `x -c`: short option
                    if !special {
                        let line = format!("x -{}", c);
                        let (calls, _, st) = feed::<RawCommand<'static>>(&mut s, format!("{}\n", line).as_bytes(), HMode::Silent);
                        if st.is_err() || calls.len() != 1 || calls[0].args != vec![RArg::Short(c)] {
                            fail("C17/short-option", format!("line {:?}: handler saw {:?}", line, calls), &mut o);
                            continue;
                        }
                        // derived enum lacking the option: error line names it
                        let mut log: Vec<String> = vec![];
                        let mut p = NoOpts::processor(|_cli, _cmd| {
                            log.push("called".into());
                            Ok(())
                        });
                        let mut sink_err = false;
                        for b in format!("{}\n", line).bytes() {
                            if s.cli.process_byte::<NoOpts, _>(b, &mut p).is_err() {
                                sink_err = true;
                            }
                        }
                        drop(p);
                        let outb = crate::base::sink_bytes(&s.cli.__verif_writer_mut().take());
                        let outs = String::from_utf8_lossy(&outb).into_owned();
                        let want = format!("error: unexpected option: -{}\r\n", c);
                        if sink_err || !log.is_empty() || !outs.contains(&want) {
                            fail("C17/option-error-line", format!("line {:?}: output {:?}, handler calls {}", line, outs, log.len()), &mut o);
                            continue;
                        }
                    }
                }
            }
            o
        })
        .reduce(EnumOutcome::default, |mut a, b| {
            a.merge(b);
            a
        });
    out.name = format!("Cli session per scalar x {} neighbour widths", neighbours.len());
    out.rule = "every scalar >= U+0020 except U+007F, next to a neighbour of each listed width: type/echo, move, delete, retype, submit as name and quoted argument, recall, short option, option error line; non-trivial = multi-byte scalar".into();
    out.expected = Some(1_112_031 * neighbours.len() as u64);
    out.exhaustive = out.evaluations == total;
    out.samples = sample_indices(seed(), scalars.len() as u64, 4)
        .into_iter()
        .map(|i| {
            let c = scalars[i as usize];
            let n = neighbours[(i as usize) % neighbours.len()];
            json!({"scalar": format!("U+{:04X}", c as u32), "neighbour": n.to_string(), "typed": format!("{}{}{}", n, c, n)})
        })
        .collect();
    out.wall_s = t0.elapsed().as_secs_f64();
    out
}
