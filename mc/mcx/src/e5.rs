//! E5: fault enumeration. Every transition of a session closure is re-executed with the k-th sink
//! call (write or flush) failing, once or until the API call returns. The fault is part of the event,
//! so post-fault states are ordinary BFS states: they are explored to closure (with further faults),
//! which covers "later input is decoded normally and a later Enter dispatches only typed text".

use crate::base::*;
use crate::bfs::*;
use crate::e1::*;
use crate::session::*;
use embedded_cli::service::{Autocomplete, Help};
use std::panic::{catch_unwind, AssertUnwindSafe};

pub struct FaultModel<C> {
    pub inner: SessModel<C>,
}

fn apply_faulted<C: Autocomplete + Help>(s: &Sess, e: &Ev, k: usize, until_return: bool) -> (Sess, Vec<(bool, Option<String>, Vec<HCall>, bool)>, bool) {
    // returns (state, per call (ok, panic, handler calls, fault fired during this call), fired at all)
    let mut n = s.clone();
    {
        let w = n.cli.__verif_writer_mut();
        w.reset_calls();
        w.fail = if until_return { Fail::From(k) } else { Fail::Once(k) };
    }
    let mut res = vec![];
    let mut fired_any = false;
    let mut one = |n: &mut Sess, f: &mut dyn FnMut(&mut CliT, &mut Vec<HCall>) -> Result<(), SinkErr>| {
        let before_calls = n.cli.__verif_writer().calls;
        let mut log = vec![];
        let r = {
            let cli = &mut n.cli;
            catch_unwind(AssertUnwindSafe(|| f(cli, &mut log)))
        };
        let after_calls = n.cli.__verif_writer().calls;
        let fired = before_calls <= k && after_calls > k;
        if after_calls > k {
            // the API call during which the fault fired has returned: the sink works again
            n.cli.__verif_writer_mut().heal();
        }
        let (ok, pan) = match r {
            Ok(Ok(())) => (true, None),
            Ok(Err(_)) => (false, None),
            Err(_) => (false, Some(LAST_PANIC.with(|p| p.borrow_mut().take()).unwrap_or_else(|| "panic".into()))),
        };
        (ok, pan, log, fired)
    };
    match e {
        Ev::Key(key, mode) => {
            for b in key.bytes() {
                let mode = *mode;
                let r = one(&mut n, &mut |cli, log| {
                    let mut h = H { log, mode };
                    cli.process_byte::<C, _>(b, &mut h)
                });
                fired_any |= r.3;
                let stop = r.1.is_some();
                res.push(r);
                if stop {
                    break;
                }
            }
        }
        Ev::Write(script) => {
            let r = one(&mut n, &mut |cli, _| cli.write(|w| run_script(w, script)));
            fired_any |= r.3;
            res.push(r);
        }
        Ev::SetPrompt(p) => {
            let r = one(&mut n, &mut |cli, _| cli.set_prompt(p));
            fired_any |= r.3;
            res.push(r);
        }
    }
    n.cli.__verif_writer_mut().heal();
    n.cli.__verif_writer_mut().take();
    (n, res, fired_any)
}

impl<C: Autocomplete + Help> FaultModel<C> {
    /// one faulted execution: returns the post-fault state (if it may be expanded) and violations
    fn faulted(&self, s: &Sess, ev: &Ev, k: usize, until: bool, before: &Snap, ff: &Sess, ff_after: &Snap, stats: &mut Stats) -> (Option<Sess>, Vec<Viol>) {
        let desc = format!("{} {}", ev.render(), sub_name(k, until));
        let (n, res, fired) = apply_faulted::<C>(s, ev, k, until);
        if !fired {
            return (None, vec![Viol::new("MACHINERY/fault-not-fired", format!("{}: replay of the same event has fewer sink calls", desc))]);
        }
        stats.hit("faults_injected");
        let p = "C14";
        let mut v = vec![];
        let after = snap(&n.cli);
        for (ok, pan, _h, fired_here) in &res {
            if let Some(m) = pan {
                v.push(Viol::new(format!("{}/panic-on-sink-error", p), format!("{}: {}", desc, m)));
            } else if *fired_here {
                stats.hit("fault_in_call_checked");
                if *ok {
                    let cls = match ev {
                        Ev::Key(key, _) if key.is_enter() => "sink-error-swallowed-on-enter",
                        Ev::Key(..) => "sink-error-swallowed-on-key",
                        Ev::Write(_) => "sink-error-swallowed-in-write",
                        Ev::SetPrompt(_) => "sink-error-swallowed-in-set-prompt",
                    };
                    v.push(Viol::new(
                        format!("{}/{}", p, cls),
                        format!("{} on line {:?}: the call during which the sink failed returned Ok", desc, String::from_utf8_lossy(&before.text)),
                    ));
                }
            }
        }
        if v.is_empty() {
            if let Some(b) = &after.broken {
                v.push(Viol::new(format!("{}/session-unusable-after-sink-error", p), b.clone()));
            } else {
                let adm = [(before.text.clone(), before.cursor), (ff_after.text.clone(), ff_after.cursor), (vec![], 0usize)];
                if !adm.contains(&(after.text.clone(), after.cursor)) {
                    v.push(Viol::new(
                        format!("{}/line-corrupted-after-sink-error", p),
                        format!(
                            "{}: line was {:?}@{}, fault-free result {:?}@{}, after the failed call it is {:?}@{}",
                            desc,
                            String::from_utf8_lossy(&before.text),
                            before.cursor,
                            String::from_utf8_lossy(&ff_after.text),
                            ff_after.cursor,
                            String::from_utf8_lossy(&after.text),
                            after.cursor
                        ),
                    ));
                }
                if canon_dec(after.dec) != canon_dec(ff_after.dec) {
                    v.push(Viol::new(
                        format!("{}/decoder-state-after-sink-error", p),
                        format!("{}: decoder {:?} vs fault-free {:?}", desc, canon_dec(after.dec), canon_dec(ff_after.dec)),
                    ));
                }
                let mut iv = vec![];
                self.inner.invariants_pub(&after, &mut iv);
                v.extend(iv);
            }
        }
        let mut n = n;
        n.term = ff.term.clone(); // the screen after a fault is unspecified and not part of the key
        n.pend = ff.pend;
        n.term.lfs = 0;
        (if v.is_empty() { Some(n) } else { None }, v)
    }
}

fn sub_name(k: usize, until: bool) -> String {
    if until {
        format!("!fail-from@{}", k)
    } else {
        format!("!fail-once@{}", k)
    }
}

impl<C: Autocomplete + Help> Model for FaultModel<C> {
    type State = Sess;
    type Key = SKey;
    type Event = Ev;

    fn name(&self) -> String {
        format!("{} x every sink-call position failed (once / until return)", self.inner.cfg.label)
    }
    fn inits(&self) -> Vec<(String, Sess)> {
        self.inner.inits()
    }
    fn events(&self) -> Vec<Ev> {
        self.inner.cfg.events.clone()
    }
    fn key(&self, s: &Sess) -> SKey {
        self.inner.key(s)
    }
    fn render_event(&self, e: &Ev) -> String {
        e.render()
    }
    fn render_sub(&self, sub: u16) -> String {
        let x = (sub - 1) as usize;
        sub_name(x / 2, x % 2 == 1)
    }
    fn step(&self, s: &Sess, e: &Ev, stats: &mut Stats) -> StepOut<Sess> {
        // fault-free execution with the session monitors (dispatch, invariants)
        let mut so = self.inner.step(s, e, stats);
        let before = snap(&s.cli);
        let (ff, calls) = apply::<C>(s, e);
        let ff_after = snap(&ff.cli);
        // number of sink calls (writes and flushes counted separately) of the fault-free execution
        let n_calls: usize = calls.iter().map(|c| c.sink.len()).sum();
        stats.add("fault_positions", 2 * n_calls as u64);
        if n_calls > 0 {
            stats.hit("events_with_output");
        }
        for k in 0..n_calls {
            for until in [false, true] {
                let (next, v) = self.faulted(s, e, k, until, &before, &ff, &ff_after, stats);
                so.viols.extend(v);
                if let Some(n) = next {
                    so.extra.push(((1 + 2 * k + until as usize) as u16, n));
                }
            }
        }
        so
    }
}
