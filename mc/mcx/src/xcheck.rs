//! Auxiliary cross-check of the home-made BFS engine with stateright (feature `sr`): the same
//! `step`/`key` functions wrapped as a `stateright::Model`; the number of unique states must agree.
//! A mismatch is a machinery error, never a verdict.

use crate::bfs;
use stateright::{Checker, Model, Property};
use std::hash::{Hash, Hasher};
use std::sync::Arc;

pub struct SrModel<M: bfs::Model>(pub Arc<M>);

pub struct SrState<M: bfs::Model> {
    s: M::State,
    k: M::Key,
    bad: bool,
}

impl<M: bfs::Model> Clone for SrState<M> {
    fn clone(&self) -> Self {
        SrState { s: self.s.clone(), k: self.k.clone(), bad: self.bad }
    }
}
impl<M: bfs::Model> PartialEq for SrState<M> {
    fn eq(&self, o: &Self) -> bool {
        self.k == o.k && self.bad == o.bad
    }
}
impl<M: bfs::Model> Eq for SrState<M> {}
impl<M: bfs::Model> Hash for SrState<M> {
    fn hash<H: Hasher>(&self, h: &mut H) {
        self.k.hash(h);
        self.bad.hash(h);
    }
}
impl<M: bfs::Model> std::fmt::Debug for SrState<M> {
    fn fmt(&self, f: &mut std::fmt::Formatter<'_>) -> std::fmt::Result {
        write!(f, "{:?}", self.k)
    }
}

impl<M: bfs::Model + Send + 'static> Model for SrModel<M>
where
    M::State: 'static,
    M::Key: 'static,
{
    type State = SrState<M>;
    type Action = usize;

    fn init_states(&self) -> Vec<Self::State> {
        self.0.inits().into_iter().map(|(_, s)| SrState { k: self.0.key(&s), s, bad: false }).collect()
    }
    fn actions(&self, _state: &Self::State, actions: &mut Vec<usize>) {
        for i in 0..self.0.events().len() {
            actions.push(i);
        }
    }
    fn next_state(&self, last: &Self::State, action: usize) -> Option<Self::State> {
        let ev = &self.0.events()[action];
        let mut st = bfs::Stats::default();
        let so = self.0.step(&last.s, ev, &mut st);
        if !so.viols.is_empty() {
            return Some(SrState { s: last.s.clone(), k: last.k.clone(), bad: true });
        }
        so.next.map(|n| SrState { k: self.0.key(&n), s: n, bad: false })
    }
    fn properties(&self) -> Vec<Property<Self>> {
        vec![Property::always("no monitor objects", |_, s: &SrState<M>| !s.bad)]
    }
}

/// returns (states by the home-made engine, unique states by stateright, stateright found a violation)
pub fn cross_check<M: bfs::Model + Send + 'static>(m: M, caps: &bfs::Caps) -> (u64, u64, bool)
where
    M::State: 'static,
    M::Key: 'static,
{
    let m = Arc::new(m);
    let mine = bfs::explore(&*m, caps, 0);
    let checker = SrModel(m.clone()).checker().threads(8).spawn_bfs().join();
    let bad = checker.discoveries().contains_key("no monitor objects");
    (mine.states, checker.unique_state_count() as u64, bad)
}
