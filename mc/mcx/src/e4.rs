//! E4: programs x inputs. Declarations enumerated by mc/gen/gen.py are compiled with the repository's
//! macros (crate progs-*); every line of a bounded length over each command's own token alphabet is
//! run through the generated parser and through a real Cli, and compared with the declaration
//! interpreter (C09), the help structure rules (C12) and the completion rule (C11).

use crate::base::sink_bytes;
use crate::interp::*;
use crate::progs::*;
use crate::refs::*;
use crate::report::EnumOutcome;
use crate::session::*;
use rayon::prelude::*;
use serde_json::json;
use std::time::Instant;

pub const PROMPT: &str = "$ ";

fn combos(alphabet: &[String], max_len: usize) -> Vec<Vec<String>> {
    let mut out: Vec<Vec<String>> = vec![vec![]];
    let mut layer: Vec<Vec<String>> = vec![vec![]];
    for _ in 0..max_len {
        let mut next = vec![];
        for p in &layer {
            for t in alphabet {
                let mut q = p.clone();
                q.push(t.clone());
                next.push(q);
            }
        }
        out.extend(next.iter().cloned());
        layer = next;
    }
    out
}

/// render a token list as a typed line: the command name bare, every argument quoted
pub fn typed_line(tokens: &[String]) -> String {
    let mut s = if tokens[0].is_empty() || tokens[0].contains(' ') || tokens[0].contains('"') { render_list(&tokens[..1]) } else { tokens[0].clone() };
    if tokens.len() > 1 {
        s.push(' ');
        s.push_str(&render_list(&tokens[1..]));
    }
    s
}

pub struct RunOut {
    pub log: Vec<String>,
    pub out: String,
    pub ok: bool,
    pub panic: Option<String>,
}

/// C15 through the generated programs: every line the C09 / C12 enumerations execute is also looked at for
/// output that no flush follows (counters: lines checked, lines with output, violations)
pub static FLUSH_LINES: std::sync::atomic::AtomicU64 = std::sync::atomic::AtomicU64::new(0);
pub static FLUSH_UNFLUSHED: std::sync::Mutex<Vec<(String, String, String)>> = std::sync::Mutex::new(Vec::new());
pub static FLUSH_UNFLUSHED_COUNT: std::sync::atomic::AtomicU64 = std::sync::atomic::AtomicU64::new(0);

pub fn run_line(prog: &Prog, base: &Sess, line: &str) -> RunOut {
    let mut s = base.clone();
    let mut bytes = line.as_bytes().to_vec();
    bytes.push(b'\n');
    let mut log = vec![];
    let r = {
        let cli = &mut s.cli;
        std::panic::catch_unwind(std::panic::AssertUnwindSafe(|| (prog.run)(cli, &bytes, &mut log)))
    };
    let evs = s.cli.__verif_writer_mut().take();
    let out = sink_bytes(&evs);
    let out = String::from_utf8_lossy(&out).into_owned();
    if let Ok(Ok(())) = &r {
        FLUSH_LINES.fetch_add(1, std::sync::atomic::Ordering::Relaxed);
        if !crate::base::all_flushed(&evs) {
            let n = FLUSH_UNFLUSHED_COUNT.fetch_add(1, std::sync::atomic::Ordering::Relaxed);
            if n < 200 {
                let tail: Vec<String> = evs.iter().rev().take(4).rev().map(|e| format!("{:?}", e)).collect();
                FLUSH_UNFLUSHED.lock().unwrap().push((prog.id.to_string(), line.to_string(), tail.join(" ")));
            }
        }
    }
    match r {
        Ok(r) => RunOut { log, out, ok: r.is_ok(), panic: None },
        Err(_) => RunOut { log, out, ok: false, panic: Some(LAST_PANIC.with(|p| p.borrow_mut().take()).unwrap_or_default()) },
    }
}

/// The output rows between the submitted line and the next prompt, judged on the emulated screen
/// (not on bytes): the first completed row must be prompt + line, the current row the prompt.
/// Returned as the rows joined by CR LF (each followed by CR LF), "" when there is none.
pub fn body_of(out: &str, line: &str) -> Option<String> {
    let sc = crate::base::screen_effect(PROMPT, "", 0, out.as_bytes());
    if sc.unknown.is_some() {
        return None;
    }
    let first = format!("{}{}", PROMPT, line);
    if sc.done.first().map(|s| s.as_str()) != Some(first.trim_end_matches(' ')) || sc.cur != PROMPT.trim_end_matches(' ') || sc.col != PROMPT.chars().count() {
        return None;
    }
    let mut b = String::new();
    for r in &sc.done[1..] {
        b.push_str(r);
        b.push_str("\r\n");
    }
    Some(b)
}

fn check_case(prog: &Prog, decls: &Decls, base: &Sess, tokens: &[String], o: &mut EnumOutcome) {
    o.evaluations += 1;
    let help_on = cfg!(feature = "help");
    if help_on && help_kind(tokens) != HelpKind::NotHelp {
        o.stats.hit("help_shaped_skipped");
        return;
    }
    let (exp, _) = interpret(decls, prog.id, tokens);
    let case = vec![prog.id.to_string(), typed_line(tokens)];
    if exp == Expect::Unspecified {
        o.stats.hit("unspecified_skipped");
        // still must not panic
        let r = run_line(prog, base, &typed_line(tokens));
        if let Some(p) = r.panic {
            o.viol("C09/panic", format!("{} line {:?}: {}", prog.id, typed_line(tokens), p), case);
        }
        return;
    }
    if tokens.len() > 1 {
        o.distinct_nontrivial += 1;
    }
    if o.samples.len() < 2 && tokens.len() > 2 {
        use std::hash::{Hash, Hasher};
        let mut h = std::collections::hash_map::DefaultHasher::new();
        (prog.id, tokens, crate::e3::seed()).hash(&mut h);
        if h.finish() % 61 == 0 {
            o.samples.push(json!({"program": prog.id, "line": typed_line(tokens), "declaration_says": format!("{:?}", exp)}));
        }
    }
    // seam 1: the structured result of FromRaw::parse
    let raw_args = tokens[1..].join("\0");
    let got = std::panic::catch_unwind(std::panic::AssertUnwindSafe(|| (prog.parse)(&tokens[0], &raw_args, tokens.len() == 1)));
    let got = match got {
        Ok(g) => g,
        Err(_) => {
            o.viol(
                "C09/panic",
                format!("{} tokens {:?}: {}", prog.id, tokens, LAST_PANIC.with(|p| p.borrow_mut().take()).unwrap_or_default()),
                case,
            );
            return;
        }
    };
    let class_of = |e: &Expect, g: &ParseOut| -> &'static str {
        match (e, g) {
            (Expect::Value(_), ParseOut::Ok(_)) | (Expect::ValuePrefix(_), ParseOut::Ok(_)) => "C09/parsed-value",
            (Expect::Value(_), ParseOut::Err(_)) | (Expect::ValuePrefix(_), ParseOut::Err(_)) => "C09/valid-line-rejected",
            (Expect::Err(_), ParseOut::Ok(_)) => "C09/invalid-line-accepted",
            (Expect::Err(PErr::UnknownCommand), _) => "C09/unknown-command",
            (Expect::Err(PErr::MissingRequired(_)), _) => "C09/missing-required",
            _ => "C09/wrong-error",
        }
    };
    let seam1_ok = match (&exp, &got) {
        (Expect::Value(v), ParseOut::Ok(g)) => v == g,
        (Expect::ValuePrefix(v), ParseOut::Ok(g)) => g.starts_with(v.as_str()),
        (Expect::Err(e), ParseOut::Err(g)) => e == g,
        _ => false,
    };
    match &exp {
        Expect::Value(_) | Expect::ValuePrefix(_) => o.stats.hit("expect_value"),
        Expect::Err(PErr::MissingRequired(_)) => o.stats.hit("expect_missing_required"),
        Expect::Err(PErr::ParseValue(..)) => o.stats.hit("expect_parse_value_error"),
        Expect::Err(PErr::UnknownCommand) => o.stats.hit("expect_unknown_command"),
        Expect::Err(_) => o.stats.hit("expect_unexpected_item"),
        _ => {}
    }
    if !seam1_ok {
        o.viol(
            class_of(&exp, &got),
            format!("{} tokens {:?}: FromRaw::parse gives {:?}, declaration says {:?}", prog.id, tokens, got, exp),
            case,
        );
        return;
    }
    // seam 2: through a real Cli: handler value / single `error:` line
    let line = typed_line(tokens);
    let r = run_line(prog, base, &line);
    if let Some(p) = r.panic {
        o.viol("C09/panic", format!("{} line {:?}: {}", prog.id, line, p), case);
        return;
    }
    let body = body_of(&r.out, &line);
    match &exp {
        Expect::Value(v) => {
            if r.log != vec![v.clone()] || body.as_deref() != Some("") || !r.ok {
                o.viol(
                    "C09/handler-value",
                    format!("{} line {:?}: handler log {:?}, output {:?}; expected value {:?} and no output", prog.id, line, r.log, r.out, v),
                    case,
                );
            }
        }
        Expect::ValuePrefix(v) => {
            if r.log.len() != 1 || !r.log[0].starts_with(v.as_str()) || body.as_deref() != Some("") {
                o.viol("C09/handler-value", format!("{} line {:?}: handler log {:?}, output {:?}", prog.id, line, r.log, r.out), case);
            }
        }
        Expect::Err(e) => {
            let ok = r.log.is_empty()
                && r.ok
                && match &body {
                    Some(b) => {
                        b.starts_with("error:")
                            && b.ends_with("\r\n")
                            && b.matches('\n').count() == 1
                            && e.payload().iter().all(|p| b.contains(p.as_str()))
                    }
                    None => false,
                };
            if !ok {
                o.viol(
                    "C09/error-line",
                    format!("{} line {:?}: handler log {:?}, output {:?}; expected one `error:` line naming {:?}", prog.id, line, r.log, r.out, e.payload()),
                    case,
                );
            }
        }
        Expect::Unspecified => {}
    }
}

pub fn c09(progs: &[Prog], decls: &Decls, max_tokens: usize) -> EnumOutcome {
    let t0 = Instant::now();
    let base = new_sess(1024, 0, PROMPT, false); // larger than any enumerated line (four 39-digit u128 tokens)
    let list: Vec<&Prog> = progs.iter().filter(|p| matches!(decls.map.get(p.id), Some(DeclD::Command { .. }) | Some(DeclD::Group { .. }))).collect();
    let mut out = list
        .par_iter()
        .map(|prog| {
            let mut o = EnumOutcome::default();
            let cmds = top_commands(decls, prog.id);
            for cmd in cmds {
                let k = if cmd.sub.is_some() { max_tokens + 1 } else { max_tokens };
                // nested commands get one more token but a smaller alphabet
                let alphabet: Vec<String> = if cmd.sub.is_some() { cmd.tokens.iter().take(9).cloned().collect() } else { cmd.tokens.clone() };
                for combo in combos(&alphabet, k) {
                    let mut tokens = vec![cmd.name.clone()];
                    tokens.extend(combo);
                    check_case(prog, decls, &base, &tokens, &mut o);
                }
                // complete lines of commands with three or more fields: every subset and order of their arguments
                for l in &cmd.long_lines {
                    let mut tokens = vec![cmd.name.clone()];
                    tokens.extend(l.iter().cloned());
                    o.stats.hit("long_lines");
                    check_case(prog, decls, &base, &tokens, &mut o);
                }
            }
            for t in [vec!["nosuch".to_string()], vec!["nosuch".to_string(), "x".to_string()], vec!["".to_string()]] {
                check_case(prog, decls, &base, &t, &mut o);
            }
            o.stats.hit("programs");
            o
        })
        .reduce(EnumOutcome::default, |mut a, b| {
            a.merge(b);
            a
        });
    out.name = format!("derived parsers: {} programs x every line of <= {} tokens over each command's own token alphabet", list.len(), max_tokens);
    out.rule = "declarations enumerated by gen.py and compiled with the repository's macros; per command every token sequence up to the bound; non-trivial = at least one argument token and a specified expectation".into();
    out.exhaustive = true;
    out.extra.insert("programs".into(), json!(list.len()));
    if out.samples.is_empty() {
        out.samples = vec![json!({"program": "PN0", "line": "mixed \"--level\" \"7\" \"get\" \"f\""})];
    }
    out.wall_s = t0.elapsed().as_secs_f64();
    out
}

// ------------------------------------------------------------------------------------------- C12

fn norm_ws(s: &str) -> String {
    s.split_whitespace().collect::<Vec<_>>().join(" ")
}

/// doc paragraphs as the statement means them: runs of non-blank lines, whitespace-normalised,
/// a single trailing period ignored
fn paragraphs(doc: &Option<Vec<String>>) -> Vec<String> {
    let mut out = vec![];
    let mut cur: Vec<String> = vec![];
    if let Some(lines) = doc {
        for l in lines {
            if l.trim().is_empty() {
                if !cur.is_empty() {
                    out.push(cur.join(" "));
                    cur.clear();
                }
            } else {
                cur.push(l.trim().to_string());
            }
        }
    }
    if !cur.is_empty() {
        out.push(cur.join(" "));
    }
    out.into_iter()
        .map(|p| {
            let p = norm_ws(&p);
            if p.ends_with('.') && !p.ends_with("..") {
                p[..p.len() - 1].to_string()
            } else {
                p
            }
        })
        .collect()
}

struct Target<'a> {
    cmd: &'a CmdD,
    /// tokens that lead to the command: names interleaved with parent options
    tokens: Vec<String>,
    /// command names only
    path: Vec<String>,
}

fn option_prefixes(cmd: &CmdD) -> Vec<Vec<String>> {
    let mut v = vec![vec![]];
    let mut all = vec![];
    for f in &cmd.fields {
        match f.kind {
            FKind::Flag => {
                if let Some(l) = &f.long {
                    all.push(format!("--{}", l));
                } else if let Some(c) = f.short {
                    all.push(format!("-{}", c));
                }
            }
            FKind::Option => {
                if let Some(c) = f.short {
                    all.push(format!("-{}", c));
                } else if let Some(l) = &f.long {
                    all.push(format!("--{}", l));
                }
                all.push(match f.ty.as_str() {
                    "&str" => "some".to_string(),
                    "char" => "c".to_string(),
                    "bool" => "true".to_string(),
                    _ => "5".to_string(),
                });
            }
            FKind::Positional => {}
        }
    }
    if !all.is_empty() {
        // every option of the parent (values directly before the sub-command name), and options first then a flag
        v.push(all.clone());
        let opts_only: Vec<String> = {
            let mut o = vec![];
            for f in &cmd.fields {
                if f.kind == FKind::Option {
                    if let Some(l) = &f.long {
                        o.push(format!("--{}", l));
                    } else if let Some(c) = f.short {
                        o.push(format!("-{}", c));
                    }
                    o.push("7".to_string());
                }
            }
            o
        };
        if !opts_only.is_empty() && opts_only != all {
            v.push(opts_only);
        }
    }
    v
}

fn targets<'a>(decls: &'a Decls, enum_id: &str, prefix: &[String], path: &[String], depth: usize, out: &mut Vec<Target<'a>>) {
    let Some(DeclD::Command { commands, .. }) = decls.map.get(enum_id) else { return };
    for cmd in commands {
        let mut tokens = prefix.to_vec();
        tokens.push(cmd.name.clone());
        let mut p = path.to_vec();
        p.push(cmd.name.clone());
        out.push(Target { cmd, tokens: tokens.clone(), path: p.clone() });
        if let Some(sub) = &cmd.sub {
            if depth < 4 {
                for op in option_prefixes(cmd) {
                    let mut t2 = tokens.clone();
                    t2.extend(op);
                    targets(decls, &sub.enum_id, &t2, &p, depth + 1, out);
                }
            }
        }
    }
}

fn rows_of(body: &str) -> Vec<String> {
    body.split("\r\n").map(|s| s.to_string()).collect()
}

fn check_command_help(decls: &Decls, t: &Target<'_>, body: &str) -> Result<(), String> {
    let rows = rows_of(body);
    let flat = norm_ws(body);
    for p in paragraphs(&t.cmd.doc) {
        if !flat.contains(&p) {
            return Err(format!("description paragraph {:?} missing", p));
        }
    }
    let usage = rows.iter().find(|r| r.trim_start().starts_with("Usage:")).ok_or("no Usage: row")?;
    let words: Vec<&str> = usage.split_whitespace().collect();
    let found = words.windows(t.path.len()).any(|w| w.iter().zip(t.path.iter()).all(|(a, b)| *a == b.as_str()));
    if !found {
        return Err(format!("usage row {:?} does not contain the full command path {:?}", usage, t.path));
    }
    for f in &t.cmd.fields {
        let doc = f.doc.clone().map(|d| norm_ws(d.trim_end_matches('.')));
        match f.kind {
            FKind::Positional => {
                let un = f.usage_name();
                if !words.contains(&un.as_str()) {
                    return Err(format!("usage row {:?} lacks positional {}", usage, un));
                }
                let ok = rows.iter().any(|r| {
                    !r.trim_start().starts_with("Usage:") && r.split_whitespace().next() == Some(un.as_str()) && doc.as_ref().map(|d| norm_ws(r).contains(d.as_str())).unwrap_or(true)
                });
                if !ok {
                    return Err(format!("no row describing positional {} with its documentation {:?}", un, doc));
                }
            }
            FKind::Option | FKind::Flag => {
                let ok = rows.iter().any(|r| {
                    let ws: Vec<&str> = r.split(|c: char| c.is_whitespace() || c == ',').filter(|x| !x.is_empty()).collect();
                    f.short.map(|c| ws.contains(&format!("-{}", c).as_str())).unwrap_or(true)
                        && f.long.as_ref().map(|l| ws.contains(&format!("--{}", l).as_str())).unwrap_or(true)
                        && (f.kind == FKind::Flag || ws.iter().any(|w| w.contains(f.value_name.as_str())))
                        && doc.as_ref().map(|d| norm_ws(r).contains(d.as_str())).unwrap_or(true)
                });
                if !ok {
                    return Err(format!("no row with option {:?}/{:?} value name {:?} and documentation {:?}", f.short, f.long, f.value_name, doc));
                }
            }
        }
    }
    if let Some(sub) = &t.cmd.sub {
        if let Some(DeclD::Command { commands, .. }) = decls.map.get(&sub.enum_id) {
            for c in commands {
                let n = rows.iter().filter(|r| r.starts_with(' ') && r.split_whitespace().next() == Some(c.name.as_str())).count();
                if n != 1 {
                    return Err(format!("sub-command {:?} listed {} times", c.name, n));
                }
            }
        }
    }
    Ok(())
}

/// visible / hidden top-level commands of a program
fn visibility<'a>(decls: &'a Decls, id: &str) -> (Vec<&'a CmdD>, Vec<&'a CmdD>) {
    match decls.map.get(id) {
        Some(DeclD::Command { commands, .. }) => (commands.iter().collect(), vec![]),
        Some(DeclD::Group { members, .. }) => {
            let mut vis = vec![];
            let mut hid = vec![];
            for (_, en, hidden) in members {
                if let Some(DeclD::Command { commands, .. }) = decls.map.get(en) {
                    if *hidden {
                        hid.extend(commands.iter());
                    } else {
                        vis.extend(commands.iter());
                    }
                }
            }
            (vis, hid)
        }
        _ => (vec![], vec![]),
    }
}

fn help_case(prog: &Prog, base: &Sess, tokens: &[String], o: &mut EnumOutcome) -> Option<String> {
    o.evaluations += 1;
    let line = typed_line(tokens);
    if o.samples.len() < 2 {
        use std::hash::{Hash, Hasher};
        let mut h = std::collections::hash_map::DefaultHasher::new();
        (prog.id, tokens, crate::e3::seed()).hash(&mut h);
        if h.finish() % 97 == 0 {
            o.samples.push(json!({"program": prog.id, "help_shaped_line": line.clone()}));
        }
    }
    let r = run_line(prog, base, &line);
    let case = vec![prog.id.to_string(), line.clone()];
    if let Some(p) = r.panic {
        o.viol("C12/panic", format!("{} line {:?}: {}", prog.id, line, p), case);
        return None;
    }
    if !r.log.is_empty() {
        o.viol("C12/help-request-reached-handler", format!("{} line {:?}: handler received {:?}", prog.id, line, r.log), case);
        return None;
    }
    match body_of(&r.out, &line) {
        Some(b) => Some(b),
        None => {
            o.viol("C12/help-output-framing", format!("{} line {:?}: output {:?}", prog.id, line, r.out), case);
            None
        }
    }
}

pub fn c12(progs: &[Prog], decls: &Decls, max_tokens: usize) -> EnumOutcome {
    let t0 = Instant::now();
    let base = new_sess(1024, 0, PROMPT, false);
    let list: Vec<&Prog> = progs.iter().filter(|p| matches!(decls.map.get(p.id), Some(DeclD::Command { .. }) | Some(DeclD::Group { .. }))).collect();
    let mut out = list
        .par_iter()
        .map(|prog| {
            let mut o = EnumOutcome::default();
            o.stats.hit("programs");
            let (vis, hid) = visibility(decls, prog.id);
            // ---- `help`: every command of every visible group exactly once with its summary
            if let Some(body) = help_case(prog, &base, &["help".to_string()], &mut o) {
                o.distinct_nontrivial += 1;
                let rows = rows_of(&body);
                for c in &vis {
                    let mine: Vec<&String> = rows.iter().filter(|r| r.starts_with(' ') && r.split_whitespace().next() == Some(c.name.as_str())).collect();
                    let summary = paragraphs(&c.doc).into_iter().next();
                    if mine.len() != 1 {
                        o.viol(
                            "C12/command-list",
                            format!("{} `help`: command {:?} is listed {} times; output {:?}", prog.id, c.name, mine.len(), body),
                            vec![prog.id.to_string(), "help".into()],
                        );
                    } else if let Some(s) = summary {
                        if !norm_ws(mine[0]).contains(&s) {
                            o.viol(
                                "C12/command-list-summary",
                                format!("{} `help`: row {:?} lacks the summary {:?}", prog.id, mine[0], s),
                                vec![prog.id.to_string(), "help".into()],
                            );
                        }
                    }
                }
                for c in &hid {
                    if vis.iter().any(|v| v.name == c.name) {
                        continue;
                    }
                    if rows.iter().any(|r| r.starts_with(' ') && r.split_whitespace().next() == Some(c.name.as_str())) {
                        o.viol("C12/hidden-command-listed", format!("{} `help` lists hidden command {:?}", prog.id, c.name), vec![prog.id.to_string(), "help".into()]);
                    }
                }
            }
            // ---- help for every command / nested path, in the three spellings
            let mut ts: Vec<Target<'_>> = vec![];
            match decls.map.get(prog.id) {
                Some(DeclD::Command { .. }) => targets(decls, prog.id, &[], &[], 0, &mut ts),
                Some(DeclD::Group { members, .. }) => {
                    for (_, en, hidden) in members {
                        if !*hidden && en != "RawCommand" {
                            targets(decls, en, &[], &[], 0, &mut ts);
                        }
                    }
                }
                _ => {}
            }
            for t in &ts {
                let mut forms: Vec<Vec<String>> = vec![];
                let mut f1 = vec!["help".to_string()];
                f1.extend(t.tokens.iter().cloned());
                forms.push(f1);
                for h in ["-h", "--help"] {
                    let mut f = t.tokens.clone();
                    f.push(h.to_string());
                    forms.push(f);
                }
                if t.tokens[0] == "help" {
                    // a command set's own `help` command: `help help` asks the library about it; `help -h` is left open
                    forms.truncate(1);
                }
                for f in forms {
                    if let Some(body) = help_case(prog, &base, &f, &mut o) {
                        o.distinct_nontrivial += 1;
                        o.stats.hit("command_help_checked");
                        if t.path.len() >= 2 {
                            o.stats.hit("nested_help_checked");
                        }
                        if let Err(m) = check_command_help(decls, t, &body) {
                            let cls = if m.contains("command path") {
                                "C12/usage-path"
                            } else if m.contains("paragraph") {
                                "C12/description"
                            } else if m.contains("positional") {
                                "C12/positional-help"
                            } else if m.contains("option") {
                                "C12/option-help"
                            } else {
                                "C12/subcommand-list"
                            };
                            o.viol(cls, format!("{} line {:?}: {}; output {:?}", prog.id, typed_line(&f), m, body), vec![prog.id.to_string(), typed_line(&f)]);
                        }
                    }
                }
                // one wrong step at the end of the path
                let mut wrong = t.tokens.clone();
                let last = wrong.len() - 1;
                wrong[last] = "nosuch".to_string();
                for f in [
                    {
                        let mut x = vec!["help".to_string()];
                        x.extend(wrong.iter().cloned());
                        x
                    },
                    {
                        let mut x = wrong.clone();
                        x.push("--help".to_string());
                        x
                    },
                ] {
                    if let Some(body) = help_case(prog, &base, &f, &mut o) {
                        o.stats.hit("unknown_help_checked");
                        if body != "error: unknown command\r\n" {
                            o.viol(
                                "C12/unknown-command-help",
                                format!("{} line {:?}: expected only `error: unknown command`, got {:?}", prog.id, typed_line(&f), body),
                                vec![prog.id.to_string(), typed_line(&f)],
                            );
                        }
                    }
                }
            }
            // ---- hidden commands are unknown to help
            for c in &hid {
                if vis.iter().any(|v| v.name == c.name) {
                    continue;
                }
                for f in [vec!["help".to_string(), c.name.clone()], vec![c.name.clone(), "-h".to_string()]] {
                    if help_kind(&f) == HelpKind::Unspecified {
                        continue; // `help -h`: left open by the statement
                    }
                    if let Some(body) = help_case(prog, &base, &f, &mut o) {
                        o.stats.hit("hidden_help_checked");
                        if body != "error: unknown command\r\n" {
                            o.viol(
                                "C12/hidden-command-help",
                                format!("{} line {:?}: expected only `error: unknown command`, got {:?}", prog.id, typed_line(&f), body),
                                vec![prog.id.to_string(), typed_line(&f)],
                            );
                        }
                    }
                }
            }
            // ---- routing: a help option anywhere among the arguments (before any `--`) never reaches the handler
            for cmd in top_commands(decls, prog.id) {
                let alphabet: Vec<String> = cmd.tokens.iter().take(8).cloned().collect();
                // short lines exhaustively, plus every fifth complete argument line of commands with many fields
                let mut lines: Vec<Vec<String>> = combos(&alphabet, max_tokens);
                lines.extend(cmd.long_lines.iter().step_by(5).cloned());
                for combo in lines {
                    for h in ["-h", "--help", "-zh"] {
                        for pos in 0..=combo.len() {
                            let mut tokens = vec![cmd.name.clone()];
                            tokens.extend(combo[..pos].iter().cloned());
                            tokens.push(h.to_string());
                            tokens.extend(combo[pos..].iter().cloned());
                            match help_kind(&tokens) {
                                HelpKind::NotHelp => {
                                    // the help option stands after `--`: an ordinary line, judged like C09
                                    o.stats.hit("after_double_dash");
                                    let (exp, _) = interpret(decls, prog.id, &tokens);
                                    o.evaluations += 1;
                                    let r = run_line(prog, &base, &typed_line(&tokens));
                                    let ok = match &exp {
                                        Expect::Value(v) => r.log == vec![v.clone()],
                                        Expect::ValuePrefix(v) => r.log.len() == 1 && r.log[0].starts_with(v.as_str()),
                                        Expect::Err(_) => r.log.is_empty() && body_of(&r.out, &typed_line(&tokens)).map(|b| b.starts_with("error:")).unwrap_or(false),
                                        Expect::Unspecified => true,
                                    };
                                    if !ok {
                                        o.viol(
                                            "C12/help-option-after-double-dash",
                                            format!("{} line {:?}: handler {:?} output {:?}, expected {:?}", prog.id, typed_line(&tokens), r.log, r.out, exp),
                                            vec![prog.id.to_string(), typed_line(&tokens)],
                                        );
                                    }
                                }
                                _ => {
                                    o.stats.hit("routing_checked");
                                    if let Some(body) = help_case(prog, &base, &tokens, &mut o) {
                                        if body.is_empty() {
                                            o.viol(
                                                "C12/help-request-unanswered",
                                                format!("{} line {:?}: nothing printed", prog.id, typed_line(&tokens)),
                                                vec![prog.id.to_string(), typed_line(&tokens)],
                                            );
                                        }
                                    }
                                }
                            }
                        }
                    }
                }
            }
            o
        })
        .reduce(EnumOutcome::default, |mut a, b| {
            a.merge(b);
            a
        });
    out.name = format!("help: {} programs x help-shaped lines", list.len());
    out.rule = "`help`, help for every command and nested path in three spellings (with parent options in front of the sub-command name), one wrong step, hidden commands, and a help option inserted at every position of every argument line up to the bound; non-trivial = lines whose help text is checked structurally".into();
    out.exhaustive = true;
    out.extra.insert("programs".into(), json!(list.len()));
    if out.samples.is_empty() {
        out.samples = vec![json!({"program": "G1", "help_shaped_line": "help"})];
    }
    out.wall_s = t0.elapsed().as_secs_f64();
    out
}

// ------------------------------------------------------------------------------------------- C11

pub const C11_SIGMA: [&str; 5] = ["a", "b", "é", "h", " "]; // `è` is reached only through completion

fn c11_names(decls: &Decls, id: &str) -> Option<Vec<String>> {
    match decls.map.get(id) {
        Some(DeclD::Names { names, .. }) => Some(names.clone()),
        Some(DeclD::NameGroup { members, .. }) => {
            let mut v = vec![];
            for (names, hidden) in members {
                if !*hidden {
                    v.extend(names.iter().cloned());
                }
            }
            Some(v)
        }
        _ => None,
    }
}

pub fn c11(progs: &[Prog], decls: &Decls, max_sym: u32, extra_cb: usize) -> EnumOutcome {
    use embedded_cli::command::RawCommand;
    let t0 = Instant::now();
    let list: Vec<(&Prog, Vec<String>)> = progs.iter().filter_map(|p| c11_names(decls, p.id).map(|n| (p, n))).collect();
    let nlines = crate::e3::count_strings(5, max_sym);
    let mut lines: Vec<String> = vec![];
    let mut tmp = String::new();
    for i in 0..nlines {
        crate::e3::nth_string(&C11_SIGMA, i, &mut tmp);
        lines.push(tmp.clone());
    }
    // programs with long names get buffers (and direct-call buffer lengths) up to the longest name + 2
    let longest = list.iter().flat_map(|(_, n)| n.iter().map(|x| x.len())).max().unwrap_or(0);
    let max_cb = (max_sym as usize) * 2 + extra_cb.max(longest + 2);
    let bases: Vec<Sess> = (0..=max_cb).map(|cb| new_sess(cb, 0, PROMPT, false)).collect();
    let help_candidate = if cfg!(feature = "help") { Some(true) } else { None };
    let mut out = list
        .par_iter()
        .map(|(prog, names)| {
            let mut o = EnumOutcome::default();
            o.stats.hit("programs");
            let spec = CompletionSpec { names: names.clone(), help_candidate };
            let extra_cb = extra_cb.max(names.iter().map(|x| x.len()).max().unwrap_or(0) + 2);
            // (a) the derived Autocomplete called directly, every word and buffer length
            for w in &lines {
                if w.is_empty() || w.contains(' ') {
                    continue;
                }
                let cands: Vec<&str> = names.iter().map(|s| s.as_str()).filter(|n| n.starts_with(w.as_str())).collect();
                let conts: Vec<&str> = cands.iter().map(|n| &n[w.len()..]).collect();
                let ext = common_prefix(&conts);
                for bl in 0..=extra_cb {
                    o.evaluations += 1;
                    let mut buf = vec![0u8; bl];
                    let r = std::panic::catch_unwind(std::panic::AssertUnwindSafe(|| (prog.complete)(w, &mut buf)));
                    let case = vec![prog.id.to_string(), format!("autocomplete({:?}) into {} bytes", w, bl)];
                    match r {
                        Err(_) => o.viol("C11/panic", format!("{} {:?}: {}", prog.id, case, LAST_PANIC.with(|p| p.borrow_mut().take()).unwrap_or_default()), case),
                        Ok((got, partial)) => {
                            let ok = if cands.is_empty() {
                                got.is_none()
                            } else {
                                match &got {
                                    // nothing offered is admissible only when the continuation does not fit
                                    None => ext.len() > bl,
                                    Some(g) => {
                                        g.len() <= bl
                                            && ext.starts_with(g.as_str())
                                            && (ext.len() > bl || *g == ext)
                                            && (partial || (cands.len() == 1 && *g == ext))
                                    }
                                }
                            };
                            if !ok {
                                o.viol(
                                    "C11/derived-autocomplete",
                                    format!("{} names {:?}: autocomplete({:?}) into {} bytes gives {:?} partial={}, common continuation of {:?} is {:?}", prog.id, names, w, bl, got, partial, cands, ext),
                                    case,
                                );
                            }
                        }
                    }
                }
            }
            // (b) Tab through a real Cli: every line, cursor position and buffer size
            for line in &lines {
                let nchars = line.chars().count();
                for cb in line.len()..=(line.len() + extra_cb).min(max_cb) {
                    for left in 0..=nchars {
                        o.evaluations += 1;
                        let mut s = bases[cb].clone();
                        let mut bytes = line.as_bytes().to_vec();
                        for _ in 0..left {
                            bytes.extend_from_slice(b"\x1b[D");
                        }
                        let (_, _, st) = feed::<RawCommand<'static>>(&mut s, &bytes, HMode::Silent);
                        let case = vec![prog.id.to_string(), format!("line {:?} cursor {} cb {}", line, nchars - left, cb)];
                        if st.is_err() {
                            o.viol("C11/session-failure", format!("{:?}: {:?}", case, st), case);
                            continue;
                        }
                        let before = snap(&s.cli);
                        if before.text != line.as_bytes() {
                            continue; // did not fit (cannot happen: cb >= len)
                        }
                        let mut log = vec![];
                        let r = {
                            let cli = &mut s.cli;
                            std::panic::catch_unwind(std::panic::AssertUnwindSafe(|| (prog.run)(cli, &[9u8], &mut log)))
                        };
                        if r.is_err() {
                            o.viol("C11/panic", format!("{:?}: {}", case, LAST_PANIC.with(|p| p.borrow_mut().take()).unwrap_or_default()), case);
                            continue;
                        }
                        let after = snap(&s.cli);
                        let Some(at) = after.text_str() else {
                            o.viol("C11/line-not-utf8", format!("{:?}: line after Tab {:?}", case, after.text), case);
                            continue;
                        };
                        if at != line.as_str() {
                            o.distinct_nontrivial += 1;
                            if o.samples.len() < 2 {
                                use std::hash::{Hash, Hasher};
                                let mut h = std::collections::hash_map::DefaultHasher::new();
                                (prog.id, line, cb, left, crate::e3::seed()).hash(&mut h);
                                if h.finish() % 211 == 0 {
                                    o.samples.push(json!({"names": names, "line": line, "cursor": nchars - left, "cb": cb, "after_tab": at}));
                                }
                            }
                        }
                        if !log.is_empty() {
                            o.viol("C11/tab-invoked-handler", format!("{:?}", case), case.clone());
                        }
                        if let Err(m) = completion_admissible(&spec, line, cb, at) {
                            let cls = if at.ends_with(' ') && !line.ends_with(' ') {
                                "C11/spurious-space"
                            } else if at.len() > cb {
                                "C11/buffer-exceeded"
                            } else if !at.starts_with(line.trim_end_matches(' ')) {
                                "C11/typed-text-altered"
                            } else {
                                "C11/wrong-continuation"
                            };
                            o.viol(cls, format!("{} names {:?}: Tab on {:?} cursor {} (cb {}): {}", prog.id, names, line, nchars - left, cb, m), case);
                        }
                    }
                }
            }
            o
        })
        .reduce(EnumOutcome::default, |mut a, b| {
            a.merge(b);
            a
        });
    out.name = format!("completion: {} name-list programs x every line of <= {} symbols x cursor x buffer size", list.len(), max_sym);
    out.rule = "every ordered list of names from the pool as one derived enum (and groups of two, visible/hidden), every line over {a,b,é,h,space}, every cursor position, every buffer size from the line length to +extra; the derived autocomplete is also called directly for every word and buffer length; non-trivial = Tab changed the line".into();
    out.exhaustive = true;
    out.extra.insert("programs".into(), json!(list.len()));
    if out.samples.is_empty() {
        out.samples = vec![json!({"names": ["abc", "b", "abd"], "line": "a", "cursor": 1, "cb": 3})];
    }
    out.wall_s = t0.elapsed().as_secs_f64();
    out
}


/// C15 over the generated programs: runs the C09 and C12 enumerations (their own verdicts are dropped here,
/// they belong to those checks) and reports every executed line whose output is not followed by a flush
pub fn c15(progs: &[Prog], decls: &Decls, max_tokens: usize) -> EnumOutcome {
    let t0 = Instant::now();
    let a = c09(progs, decls, max_tokens);
    let b = c12(progs, decls, max_tokens.saturating_sub(1).max(2));
    let mut o = EnumOutcome::default();
    o.name = format!("flush discipline over the generated programs: every line of the derived-parser and help enumerations ({} + {} cases)", a.evaluations, b.evaluations);
    o.rule = "every line typed into a real Cli by the C09 / C12 enumerations (values, every kind of parse error, help listings, command and nested help, unknown commands); when all calls returned Ok no written byte may follow the last flush; non-trivial = every executed line".into();
    o.evaluations = FLUSH_LINES.load(std::sync::atomic::Ordering::Relaxed);
    o.distinct_nontrivial = o.evaluations;
    o.stats.add("lines_checked", o.evaluations);
    let v = FLUSH_UNFLUSHED.lock().unwrap().clone();
    let total = FLUSH_UNFLUSHED_COUNT.load(std::sync::atomic::Ordering::Relaxed);
    let mut sorted = v;
    sorted.sort_by_key(|(p, l, _)| (l.len(), p.clone(), l.clone()));
    for (p, l, tail) in sorted.into_iter().take(3) {
        o.viol("C15/unflushed-output", format!("{} line {:?}: the last sink events are {}", p, l, tail), vec![p, l]);
    }
    if total > 0 {
        o.viol_counts.insert("C15/unflushed-output".into(), total);
    }
    o.exhaustive = true;
    o.samples = vec![json!({"program": "PP0", "line": "pr0 \"300\""})];
    o.wall_s = t0.elapsed().as_secs_f64();
    o
}
