//! Command sets compiled with the repository's derive macros, used by the session explorations.

#![allow(dead_code)]

use embedded_cli::Command;

/// names: ab, aé, b, ébb  (shared prefix, multi-byte, one name too long for tiny buffers)
#[derive(Debug, Command)]
pub enum Cmd4 {
    #[command(name = "ab")]
    Ab,
    #[command(name = "aé")]
    Ae,
    B,
    #[command(name = "ébb")]
    Ebb,
}

pub fn cmd4_names() -> Vec<String> {
    ["ab", "aé", "b", "ébb"].iter().map(|s| s.to_string()).collect()
}

// ---- command sets for the fault enumeration (names typable with {a, h, space, -})

/// plain enum: a, aa (with an argument and an option, so help has several rows), ha
#[derive(Debug, Command)]
pub enum PlainA<'a> {
    /// First command
    A,
    /// Second command.
    ///
    /// With a longer description
    Aa {
        /// Some text
        text: Option<&'a str>,
        /// A level
        #[arg(short = 'a', long)]
        level: Option<u8>,
    },
}

#[derive(Debug, Command)]
pub enum PlainB {
    /// Other group command
    Ha,
}

#[derive(Debug, embedded_cli::CommandGroup)]
pub enum Grp<'a> {
    First(PlainA<'a>),
    Second(PlainB),
}

pub fn plain_a_names() -> Vec<String> {
    ["a", "aa"].iter().map(|s| s.to_string()).collect()
}
pub fn grp_names() -> Vec<String> {
    ["a", "aa", "ha"].iter().map(|s| s.to_string()).collect()
}

/// multi-byte command names whose continuation has to be cut inside a character in tight buffers
#[derive(Debug, Command)]
pub enum CmdU {
    #[command(name = "é中")]
    A,
    #[command(name = "a𝄞")]
    B,
    #[command(name = "ééé")]
    C,
}

pub fn cmdu_names() -> Vec<String> {
    ["é中", "a𝄞", "ééé"].iter().map(|s| s.to_string()).collect()
}
