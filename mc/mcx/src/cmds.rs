//! Command sets compiled with the repository's derive macros, used by the session explorations.

#![allow(dead_code)]

use embedded_cli::Command;

/// names: ab, aé, b, ébb  (shared prefix, multi-byte, one name too long for tiny buffers)
#[derive(Debug, Command)]
pub enum Cmd4 {
    #[command(name = "ab")]
    Ab,
    #[command(name = "aé")]
    Ae,
    B,
    #[command(name = "ébb")]
    Ebb,
}

pub fn cmd4_names() -> Vec<String> {
    ["ab", "aé", "b", "ébb"].iter().map(|s| s.to_string()).collect()
}
