//! "Scale" configurations: buffers, lines, entries, offsets and counts beyond the numeric thresholds that the
//! small closures never reach (8, 16, 32, 64, 128, 256 bytes / characters / entries). Closure is out of reach
//! there, so each run is (1) a *checked prefill*: long event paths that build large states, every step of
//! which runs under the property's monitors, and (2) a depth-bounded BFS from every state so built.
//! The statements quantify over "all buffer sizes"; a narrowed integer (u8 cursor), a fixed scratch array or a
//! chunked copy is only visible here.

use crate::bfs::*;
use crate::checks_e1::*;
use crate::e1::*;
use crate::report::Report;
use crate::session::*;

fn rep_ev(e: Ev, n: usize) -> Vec<Ev> {
    std::iter::repeat(e).take(n).collect()
}

fn type_str(s: &str) -> Vec<Ev> {
    s.chars().map(ch).collect()
}

/// a line of exactly `bytes` bytes made of `c` (padded with 'a')
fn fill_line(c: char, bytes: usize) -> Vec<Ev> {
    let l = c.len_utf8();
    let mut v = rep_ev(ch(c), bytes / l);
    v.extend(rep_ev(ch('a'), bytes % l));
    v
}

fn thresholds(max: usize, quick: bool) -> Vec<usize> {
    let base: Vec<usize> = if quick {
        vec![15, 16, 17, 127, 128, 255, 256, 257]
    } else {
        vec![7, 8, 9, 15, 16, 17, 31, 32, 33, 63, 64, 65, 127, 128, 129, 255, 256, 257, 511, 512, 513]
    };
    let mut v: Vec<usize> = base.into_iter().filter(|&n| n <= max).collect();
    for d in 0..=2 {
        if max >= d && !v.contains(&(max - d)) {
            v.push(max - d);
        }
    }
    v
}

fn cursor_offsets(chars: usize) -> Vec<usize> {
    let mut v = vec![0usize, 1, 2];
    for m in [9usize, 10, 11, 99, 100, 101, 127, 128, 129, 255, 256, 257] {
        v.push(m);
    }
    v.push(chars.saturating_sub(1));
    v.push(chars);
    v.retain(|&m| m <= chars);
    v.sort();
    v.dedup();
    v
}

// ------------------------------------------------------------------ C05

pub fn c05_scale(rep: &mut Report, tier: &str, seed: u64) {
    let quick = tier == "quick";
    let mut dcaps = caps(tier);
    dcaps.max_depth = if quick { 2 } else { 3 };
    dcaps.max_states = 8_000_000;
    let alphabet = vec![ch('a'), ch('é'), ch('𝄞'), k(Key::Bs), k(Key::Left), k(Key::Right)];
    let cbs: Vec<usize> = if quick { vec![258] } else { vec![66, 130, 258, 300, 515] };
    for cb in cbs {
        let mut pre: Vec<(String, Vec<Ev>)> = vec![];
        let mut sweeps: Vec<(String, Vec<Ev>, usize)> = vec![];
        for n in thresholds(cb, false) {
            for c in ['a', 'é', '中', '𝄞'] {
                // the line, then Left until the start: every cursor position is a start of the search
                let line = fill_line(c, n);
                let chars = line.len();
                if chars == 0 {
                    continue;
                }
                let mut p = line.clone();
                p.extend(rep_ev(k(Key::Left), chars));
                sweeps.push((format!("line of {} bytes of {:?}, then Left x{}", n, c, chars), p, chars - 1));
            }
        }
        // walk over the whole line and back, delete everything from the middle
        let mut walk = fill_line('é', cb);
        let chars = walk.len();
        walk.extend(rep_ev(k(Key::Left), chars + 1));
        walk.extend(rep_ev(k(Key::Right), chars + 1));
        walk.extend(rep_ev(k(Key::Left), chars / 2));
        walk.extend(rep_ev(k(Key::Bs), chars));
        pre.push(("walk left, right, delete from the middle".to_string(), walk));
        let mut cfg = base_cfg(
            "C05",
            format!("editor scale cb={} hb=0 raw (checked prefill over {} paths, every cursor position of {} long lines as a start, then depth-bounded)", cb, pre.len() + sweeps.len(), sweeps.len()),
            cb,
            0,
            alphabet.clone(),
            Mon { editor: true, invariants: true, ..Default::default() },
        );
        cfg.prefilled = pre;
        cfg.prefilled_sweep = sweeps;
        let name = cfg.label.clone();
        run_raw(rep, cfg, &dcaps, seed);
        rep.required.push((name.clone(), "editor_insert_rejected".into()));
        rep.required.push((name, "editor_insert_inside".into()));
    }
    endurance(rep, tier, seed, "C05");
}

// ------------------------------------------------------------------ C10

/// distinct lines over {a, b}, shortest first
fn ab_lines(max_len: usize) -> Vec<String> {
    let mut v = vec![];
    for l in 1..=max_len {
        for i in 0..(1usize << l) {
            let s: String = (0..l).map(|b| if (i >> (l - 1 - b)) & 1 == 0 { 'a' } else { 'b' }).collect();
            v.push(s);
        }
    }
    v
}

fn submit(s: &str) -> Vec<Ev> {
    let mut v = type_str(s);
    v.push(k(Key::Lf));
    v
}

pub fn c10_scale(rep: &mut Report, tier: &str, seed: u64) {
    let quick = tier == "quick";
    let mut dcaps = caps(tier);
    dcaps.max_depth = if quick { 2 } else { 3 };
    let mon = Mon { history: true, invariants: true, ..Default::default() };
    let alphabet = vec![ch('a'), ch('b'), k(Key::Bs), k(Key::Lf), k(Key::Up), k(Key::Down)];
    let hbs: Vec<usize> = if quick { vec![258] } else { vec![66, 130, 258, 300, 515] };
    for hb in hbs {
        let cb = 130.min(hb);
        let mut pre: Vec<(String, Vec<Ev>)> = vec![];
        // (a) many short entries until the buffer has overflowed by ~30 bytes (evictions under way)
        let mut a: Vec<Ev> = vec![];
        let mut total = 0usize;
        let mut count = 0usize;
        for l in ab_lines(7) {
            if total > hb + 30 {
                break;
            }
            total += l.len() + 1;
            count += 1;
            a.extend(submit(&l));
        }
        for j in [0usize, 1, 2, 5, 40, 64, 65, count] {
            let mut p = a.clone();
            p.extend(rep_ev(k(Key::Up), j.min(count + 1)));
            pre.push((format!("{} short entries submitted, Up x{}", count, j), p));
        }
        // ... then re-submit entries that sit at small / large offsets (duplicate moved to the newest position)
        for (label, dup) in [("an old entry", "bab"), ("a recent entry", "aabbab")] {
            let mut p = a.clone();
            p.extend(submit(dup));
            p.push(k(Key::Up));
            p.push(k(Key::Up));
            pre.push((format!("{} short entries, re-submit {} ({:?}), Up Up", count, label, dup), p));
        }
        // (b) entries of increasing length a, aa, aaa, ... until overflow
        let mut b: Vec<Ev> = vec![];
        let mut total = 0usize;
        let mut i = 1usize;
        while total <= hb + 20 && i <= cb {
            b.extend(submit(&"a".repeat(i)));
            total += i + 1;
            i += 1;
        }
        for j in [0usize, 1, 3, i] {
            let mut p = b.clone();
            p.extend(rep_ev(k(Key::Up), j));
            pre.push((format!("entries of length 1..{}, Up x{}", i - 1, j), p));
        }
        // (c) a few long entries; one that fits exactly, one that is one byte too long
        let mut c: Vec<Ev> = vec![];
        let l1 = (hb / 3).min(cb);
        c.extend(submit(&"a".repeat(l1)));
        c.extend(submit(&"b".repeat(l1)));
        c.extend(submit(&format!("{}{}", "a".repeat(l1 / 2), "b".repeat(l1 - l1 / 2))));
        c.extend(submit(&"ab".repeat(l1 / 2)));
        for j in [0usize, 1, 2, 3] {
            let mut p = c.clone();
            p.extend(rep_ev(k(Key::Up), j));
            pre.push((format!("four entries of {} bytes, Up x{}", l1, j), p));
        }
        if cb + 1 >= hb {
            for extra in [0usize, 1] {
                let mut p = submit("ab");
                p.extend(submit(&"a".repeat(hb - 1 + extra)));
                p.push(k(Key::Up));
                pre.push((format!("entry of hb-1+{} bytes after a short one, Up", extra), p));
            }
        }
        let mut cfg = base_cfg(
            "C10",
            format!("history scale cb={} hb={} raw (checked prefill over {} paths, then depth-bounded)", cb, hb, pre.len()),
            cb,
            hb,
            alphabet.clone(),
            mon.clone(),
        );
        cfg.prefilled = pre;
        let name = cfg.label.clone();
        run_raw(rep, cfg, &dcaps, seed);
        rep.required.push((name.clone(), "history_duplicate".into()));
        rep.required.push((name.clone(), "history_evict_multi".into()));
        rep.required.push((name, "history_recall".into()));
    }
    // the history buffer as large as the command buffer: a line that fills the history exactly
    for (cb, hb) in if quick { vec![(258usize, 258usize)] } else { vec![(258, 258), (300, 257), (257, 300)] } {
        let mut pre: Vec<(String, Vec<Ev>)> = vec![];
        for n in [254usize, 255, 256, 257, 258] {
            if n <= cb {
                let mut p = submit("ab");
                p.extend(submit(&"a".repeat(n)));
                p.push(k(Key::Up));
                pre.push((format!("'ab', then a line of {} bytes, Up", n), p));
            }
        }
        let mut cfg = base_cfg("C10", format!("history scale cb={} hb={} raw: lines around the history size", cb, hb), cb, hb, alphabet.clone(), mon.clone());
        cfg.prefilled = pre;
        run_raw(rep, cfg, &dcaps, seed);
    }
    // more than 256 entries alive at once (a u8 entry counter), re-submission of entries that lie deeper than
    // 256 positions / 256 bytes / 1024 bytes in the buffer
    {
        let (cb, hb) = (16usize, 2100usize);
        let lines = ab_lines(8);
        let mut all: Vec<Ev> = vec![];
        let mut total = 0usize;
        let mut live: Vec<&String> = vec![];
        for l in &lines {
            if total > hb + 60 {
                break;
            }
            total += l.len() + 1;
            live.push(l);
            all.extend(submit(l));
        }
        let mut pre: Vec<(String, Vec<Ev>)> = vec![];
        let n = live.len();
        for (label, idx) in [("the newest", n - 1), ("the 2nd newest", n - 2), ("300 back", n.saturating_sub(300)), ("260 back", n.saturating_sub(260)), ("255 back", n.saturating_sub(255)), ("100 back", n - 100)] {
            let mut p = all.clone();
            p.extend(submit(live[idx]));
            p.extend(rep_ev(k(Key::Up), 3));
            pre.push((format!("{} short entries submitted into {} bytes, re-submit the one {} ({:?}), Up x3", n, hb, label, live[idx]), p));
        }
        let mut p = all.clone();
        p.extend(rep_ev(k(Key::Up), n + 2));
        p.extend(rep_ev(k(Key::Down), n + 2));
        pre.push((format!("{} short entries submitted into {} bytes, Up to the oldest and Down past the newest", n, hb), p));
        let mut cfg = base_cfg("C10", format!("history scale cb={} hb={} raw: more than 256 live entries (checked prefill over {} paths, then depth-bounded)", cb, hb, pre.len()), cb, hb, alphabet.clone(), mon.clone());
        cfg.prefilled = pre;
        let mut d1 = dcaps.clone();
        d1.max_depth = 1;
        run_raw(rep, cfg, &d1, seed);
    }
    endurance(rep, tier, seed, "C10");
}

// ------------------------------------------------------------------ C06 (+ C13 framing of Cli::write on long lines)

pub fn c06_scale(rep: &mut Report, tier: &str, seed: u64, prop: &'static str) {
    let quick = tier == "quick";
    let mut dcaps = caps(tier);
    dcaps.max_depth = 2;
    let mon = match prop {
        "C13" => Mon { framing: true, dispatch: true, term: true, invariants: true, ..Default::default() },
        "C15" => Mon { flush: true, invariants: true, ..Default::default() },
        _ => Mon { term: true, invariants: true, ..Default::default() },
    };
    let mut alphabet = vec![
        ch('a'),
        ch('é'),
        k(Key::Bs),
        k(Key::Left),
        k(Key::Right),
        k(Key::Up),
        k(Key::Down),
        k(Key::Tab),
        k(Key::Lf),
        kh(Key::Lf, HMode::Write("o")),
        wr("x"),
        wr("x\n"),
        Ev::SetPrompt("é> "),
        Ev::SetPrompt(""),
    ];
    if prop == "C13" {
        let long: &'static [Piece] = leak_script(vec![
            Piece { kind: PieceKind::WriteStr, text: "0123456789abcdef" },
            Piece { kind: PieceKind::UChars, text: "4294967295" },
            Piece { kind: PieceKind::WritelnStr, text: "" },
            Piece { kind: PieceKind::FmtWrite, text: "total: 12345678 bytes\n\nfree" },
        ]);
        alphabet.push(Ev::Write(long));
        alphabet.push(kh(Key::Lf, HMode::Script(long)));
    }
    let cbs: Vec<usize> = if quick { vec![300] } else { vec![40, 130, 300, 515] };
    for cb in cbs {
        let hb = 64.min(cb);
        let mut pre: Vec<(String, Vec<Ev>)> = vec![];
        let ns: Vec<usize> = if quick { vec![10, 11, 100, 101, 128, 256, 257] } else { vec![7, 8, 9, 10, 11, 12, 16, 17, 32, 33, 64, 65, 99, 100, 101, 127, 128, 129, 255, 256, 257, 258, 300, 512, 513] };
        for n in ns.into_iter().filter(|&n| n <= cb) {
            for c in if quick && n != 100 { vec!['a'] } else { vec!['a', 'é'] } {
                let line = fill_line(c, n);
                let chars = line.len();
                let offs: Vec<usize> = if quick { cursor_offsets(chars).into_iter().filter(|m| [0, 1, 9, 10, 100, 255, 256].contains(m) || *m == chars).collect() } else { cursor_offsets(chars) };
                for m in offs {
                    let mut p = line.clone();
                    p.extend(rep_ev(k(Key::Left), m));
                    pre.push((format!("line of {} bytes of {:?}, cursor {} left of the end", n, c, m), p));
                }
            }
        }
        // recall of a long entry over a longer / shorter line
        let mut p = submit(&"a".repeat(60.min(hb - 1)));
        p.extend(type_str(&"b".repeat(100.min(cb))));
        p.extend(rep_ev(k(Key::Left), 12));
        pre.push(("long entry in history, longer line typed, cursor 12 left".to_string(), p));
        let mut cfg = base_cfg(
            prop,
            format!("screen scale cb={} hb={} cmd4 (checked prefill over {} paths, then depth-bounded)", cb, hb, pre.len()),
            cb,
            hb,
            alphabet.clone(),
            mon.clone(),
        );
        cfg.prefilled = pre;
        run_cmd4(rep, cfg, &dcaps, seed);
        // every cursor position of long lines x every event (depth 1)
        let mut sweeps: Vec<(String, Vec<Ev>, usize)> = vec![];
        let ns: Vec<usize> = if quick { vec![11, 33, 101, 111, 257] } else { vec![9, 10, 11, 17, 33, 65, 100, 101, 111, 129, 257, 300, 513] };
        for n in ns.into_iter().filter(|&n| n <= cb) {
            for c in if n == 33 || n == 101 { vec!['a', 'é'] } else { vec!['a'] } {
                let line = fill_line(c, n);
                let chars = line.len();
                let mut p = line.clone();
                p.extend(rep_ev(k(Key::Left), chars));
                sweeps.push((format!("line of {} bytes of {:?}, then Left x{}", n, c, chars), p, chars - 1));
            }
        }
        let mut d1 = dcaps.clone();
        d1.max_depth = if quick { 1 } else { 2 };
        let mut cfg = base_cfg(
            prop,
            format!("screen scale cb={} hb={} cmd4 (every cursor position of {} long lines x every event)", cb, hb, sweeps.len()),
            cb,
            hb,
            alphabet.clone(),
            mon.clone(),
        );
        cfg.prefilled_sweep = sweeps;
        run_cmd4(rep, cfg, &d1, seed);
    }
    if prop != "C13" {
        endurance(rep, tier, seed, prop);
    }
}

// ------------------------------------------------------------------ C01

pub fn c01_scale(rep: &mut Report, tier: &str, seed: u64) {
    let quick = tier == "quick";
    let mut dcaps = caps(tier);
    dcaps.max_depth = if quick { 2 } else { 3 };
    let mon = Mon { dispatch: true, invariants: true, ..Default::default() };
    let alphabet = vec![ch('a'), ch(' '), ch('"'), ch('é'), k(Key::Bs), k(Key::Left), k(Key::Up), k(Key::Lf), k(Key::Cr)];
    let (cb, hb) = (300usize, 100usize);
    let mut pre: Vec<(String, Vec<Ev>)> = vec![];
    let ks: Vec<usize> = if quick { vec![5, 9, 17, 33, 65, 129] } else { vec![4, 5, 7, 8, 9, 15, 16, 17, 31, 32, 33, 63, 64, 65, 127, 128, 129] };
    let toks = ["a", "é", "aé", "-a", "--a", "\"a a\"", "\"\"", "a\"a", "\"\\\"\"", "𝄞"];
    for &kk in &ks {
        // kk one-character tokens
        let line: String = (0..kk).map(|_| "a").collect::<Vec<_>>().join(" ");
        if line.len() <= cb {
            pre.push((format!("{} tokens 'a'", kk), type_str(&line)));
        }
        // kk tokens of mixed shapes
        let line: String = (0..kk).map(|i| toks[i % toks.len()]).collect::<Vec<_>>().join(" ");
        if line.len() <= cb {
            let mut p = type_str(&line);
            pre.push((format!("{} tokens of mixed shapes", kk), p.clone()));
            p.extend(rep_ev(k(Key::Left), 3));
            pre.push((format!("{} tokens of mixed shapes, cursor 3 left", kk), p));
        }
        // one token of kk bytes as the name, as the first argument, quoted with blanks
        if kk + 2 <= cb {
            pre.push((format!("name of {} bytes", kk), type_str(&"a".repeat(kk))));
            pre.push((format!("argument of {} bytes", kk), type_str(&format!("a {}", "é".repeat(kk / 2)))));
            pre.push((format!("quoted argument of {} bytes", kk), type_str(&format!("a \"{}\" a", "a ".repeat(kk / 2)))));
        }
    }
    // three and more submitted lines, then recall and resubmission
    let mut p = vec![];
    for l in ["a b c d e", "é é é", "a \"b c\" d", "a", "a a a a a a a a a"] {
        p.extend(submit(l));
    }
    p.push(k(Key::Up));
    p.push(k(Key::Up));
    p.push(k(Key::Up));
    pre.push(("five submitted lines, Up x3".to_string(), p));
    // every cursor position of the lines built above (except the history one) is a start
    let mut sweeps: Vec<(String, Vec<Ev>, usize)> = vec![];
    for (label, evs) in pre.iter().filter(|(l, _)| !l.contains("cursor") && !l.contains("submitted")) {
        let chars = evs.len();
        if chars == 0 || (quick && chars > 140) {
            continue;
        }
        let mut p = evs.clone();
        p.extend(rep_ev(k(Key::Left), chars));
        sweeps.push((format!("{}, then Left x{}", label, chars), p, chars - 1));
    }
    let mut cfg = base_cfg("C01", format!("dispatch scale cb={} hb={} raw (checked prefill over {} paths, every cursor position of {} lines as a start, then depth-bounded)", cb, hb, pre.len() + sweeps.len(), sweeps.len()), cb, hb, alphabet, mon);
    cfg.prefilled = pre;
    cfg.prefilled_sweep = sweeps;
    let name = cfg.label.clone();
    run_raw(rep, cfg, &dcaps, seed);
    rep.required.push((name, "dispatch_with_args".into()));
    // more than 256 tokens in one line
    {
        let cb = 700usize;
        let mut pre: Vec<(String, Vec<Ev>)> = vec![];
        for kk in [255usize, 256, 257, 300] {
            let line: String = (0..kk).map(|i| if i % 7 == 3 { "é" } else { "a" }).collect::<Vec<_>>().join(" ");
            let mut p = type_str(&line);
            pre.push((format!("{} one-character tokens", kk), p.clone()));
            p.extend(rep_ev(k(Key::Left), 2 * kk - 3));
            pre.push((format!("{} one-character tokens, cursor after the first", kk), p));
        }
        let mut cfg = base_cfg("C01", format!("dispatch scale cb={} hb=0 raw: lines of 255..300 tokens (checked prefill, then depth-bounded)", cb), cb, 0, vec![ch('a'), ch(' '), ch('"'), k(Key::Bs), k(Key::Left), k(Key::Lf)], Mon { dispatch: true, invariants: true, ..Default::default() });
        cfg.prefilled = pre;
        let mut d2 = caps(tier);
        d2.max_depth = 2;
        run_raw(rep, cfg, &d2, seed);
    }
    endurance(rep, tier, seed, "C01");
}

// ------------------------------------------------------------------ endurance (many repetitions)

fn cycle(pattern: &[Ev], times: usize) -> Vec<Ev> {
    let mut v = Vec::with_capacity(pattern.len() * times);
    for _ in 0..times {
        v.extend_from_slice(pattern);
    }
    v
}

/// Long sessions: short cycles of keys repeated tens of thousands of times as checked prefill (every step under
/// the monitors), so that a counter, generation number or postponed compaction that a change adds overflows or
/// fires (u8 after 256, every 4096th edit, u16 after 65 536). Three kinds of session: (1) mixed cycles, each
/// started after 0..3 extra permanent characters so that a "every N-th edit" event meets every phase of the
/// cycle; (2) monotone runs of one key or key pair (70 000 keys without any other call in between: 65 536
/// modifications without a single length query), followed by a probing tail; (3) the same after a history has
/// been built. About a microsecond per key.
pub fn endurance(rep: &mut Report, tier: &str, seed: u64, prop: &'static str) {
    let quick = tier == "quick";
    let n = if quick { 70_000 } else { 280_000 };
    let mut dcaps = caps(tier);
    dcaps.max_depth = 1;
    let lf = k(Key::Lf);
    let up = k(Key::Up);
    let down = k(Key::Down);
    let left = k(Key::Left);
    let right = k(Key::Right);
    let bs = k(Key::Bs);
    let tab = k(Key::Tab);
    let probe: Vec<Ev> = vec![left.clone(), right.clone(), ch('c'), left.clone(), bs.clone(), right.clone(), ch('é'), lf.clone(), up.clone(), lf.clone()];
    // monotone runs, each after a small history exists and a line is being edited, each followed by the probe
    let mut marks: Vec<(String, Vec<Ev>, Vec<usize>)> = vec![];
    let mut monotone = |label: &str, pat: &[Ev]| -> (String, Vec<Ev>) {
        let mut p = submit("ab");
        p.extend(submit("b"));
        p.extend(type_str("a"));
        let base = p.len();
        p.extend(cycle(pat, n / pat.len()));
        // the states after 2^e + d keys of the run (e = 7..=17, |d| <= 4) are starts of a depth-3 search over a
        // probing alphabet: a counter that wrapped exactly there is looked at by Left / Right / typing / Enter
        let mut idx: Vec<usize> = vec![];
        for e in 7..=18u32 {
            for d in -4i64..=4 {
                let q = (1i64 << e) + d;
                if q > 0 && (q as usize) <= n / pat.len() * pat.len() {
                    idx.push(base + q as usize - 1);
                }
            }
        }
        idx.sort();
        idx.dedup();
        marks.push((format!("'ab' Enter 'b' Enter 'a', then [{}] repeated", label), p.clone(), idx));
        p.extend(probe.clone());
        (format!("'ab' Enter 'b' Enter 'a', then [{}] x{}, then a probing tail", label, n / pat.len()), p)
    };
    let mut paths: Vec<(String, Vec<Ev>)> = vec![
        monotone("Up Down", &[up.clone(), down.clone()]),
        monotone("Up", &[up.clone()]),
        monotone("Down", &[down.clone()]),
        monotone("Backspace", &[bs.clone()]),
        monotone("Enter", &[lf.clone()]),
        monotone("Left Right", &[left.clone(), right.clone()]),
        monotone("Tab", &[tab.clone()]),
        monotone("a Backspace", &[ch('a'), bs.clone()]),
    ];
    // mixed cycles from four phase offsets
    for extra in 0..4usize {
        let mut p = type_str(&"x".repeat(extra));
        p.extend(cycle(&[ch('é'), ch('𝄞'), bs.clone(), bs.clone()], n / 8));
        p.extend(probe.clone());
        paths.push((format!("{} permanent characters, then [é 𝄞 Backspace Backspace] x{}", extra, n / 8), p));
        let mut p = type_str(&"x".repeat(extra));
        p.extend(cycle(&[ch('a'), left.clone(), ch('é'), right.clone(), bs.clone(), bs.clone()], n / 12));
        p.extend(probe.clone());
        paths.push((format!("{} permanent characters, then [a Left é Right Backspace Backspace] x{}", extra, n / 12), p));
    }
    let (mon, alphabet, cb, hb): (Mon, Vec<Ev>, usize, usize) = match prop {
        "C10" => {
            let mut round: Vec<Ev> = vec![];
            for l in ["a", "b", "ab", "ba", "aa", "bb", "aab"] {
                round.extend(type_str(l));
                round.push(lf.clone());
            }
            paths.push((format!("7 distinct lines submitted round-robin x{}", n / 21), cycle(&round, n / 21)));
            paths.push((format!("[a Enter b Enter Up Up Enter Up Down Down] x{}", n / 10), {
                let mut p = submit("ab");
                p.extend(cycle(&[ch('a'), lf.clone(), ch('b'), lf.clone(), up.clone(), up.clone(), lf.clone(), up.clone(), down.clone(), down.clone()], n / 10));
                p
            }));
            (Mon { history: true, invariants: true, ..Default::default() }, vec![ch('a'), ch('b'), bs.clone(), lf.clone(), up.clone(), down.clone()], 8, 24)
        }
        "C01" => {
            paths.push((format!("[a blank b Enter] x{}", n / 4), cycle(&[ch('a'), ch(' '), ch('b'), lf.clone()], n / 4)));
            paths.push((format!("[a Up Enter Tab] x{}", n / 4), cycle(&[ch('a'), up.clone(), lf.clone(), tab.clone()], n / 4)));
            (Mon { dispatch: true, invariants: true, ..Default::default() }, vec![ch('a'), ch(' '), bs.clone(), left.clone(), lf.clone()], 8, 8)
        }
        "C05" => (Mon { editor: true, invariants: true, ..Default::default() }, vec![ch('a'), ch('é'), bs.clone(), left.clone(), right.clone()], 8, 8),
        _ => {
            paths.push((
                format!("[a é Left write(x) Right Backspace Up Down Tab Enter set_prompt set_prompt] x{}", n / 12),
                cycle(&[ch('a'), ch('é'), left.clone(), wr("x"), right.clone(), bs.clone(), up.clone(), down.clone(), tab.clone(), lf.clone(), Ev::SetPrompt("é> "), Ev::SetPrompt("$ ")], n / 12),
            ));
            (
                if prop == "C15" { Mon { flush: true, invariants: true, ..Default::default() } } else { Mon { term: true, invariants: true, ..Default::default() } },
                vec![ch('a'), bs.clone(), left.clone(), up.clone(), lf.clone(), wr("x"), Ev::SetPrompt("é> ")],
                8,
                8,
            )
        }
    };
    let total: usize = paths.iter().map(|(_, p)| p.len()).sum();
    let mut cfg = base_cfg(prop, format!("endurance cb={} hb={}: {} long sessions of repeated keys and cycles, {} keys in all, every step under the monitors", cb, hb, paths.len(), total), cb, hb, alphabet, mon);
    cfg.prefilled = paths;
    if prop == "C05" || prop == "C10" || prop == "C01" {
        run_raw(rep, cfg.clone(), &dcaps, seed);
    } else {
        run_cmd4(rep, cfg.clone(), &dcaps, seed);
    }
    // second run: the monotone sessions again, searched to depth 3 from the states at 2^e + d repetitions
    let mut d3 = caps(tier);
    d3.max_depth = 3;
    let nmarks: usize = marks.iter().map(|(_, _, i)| i.len()).sum();
    cfg.label = format!("endurance cb={} hb={}: depth-3 search from {} states reached after 2^e + d repetitions (e = 7..18, |d| <= 4) of {} monotone runs", cb, hb, nmarks, marks.len());
    cfg.prefilled = vec![];
    cfg.prefilled_marks = marks;
    cfg.events = match prop {
        "C10" => vec![ch('c'), k(Key::Bs), k(Key::Lf), k(Key::Up), k(Key::Down), k(Key::Left)],
        "C01" => vec![ch('c'), ch(' '), k(Key::Bs), k(Key::Left), k(Key::Right), k(Key::Lf), k(Key::Up)],
        "C05" => vec![ch('c'), ch('é'), k(Key::Bs), k(Key::Left), k(Key::Right), k(Key::Up)],
        _ => vec![ch('c'), k(Key::Bs), k(Key::Left), k(Key::Right), k(Key::Up), k(Key::Lf), wr("x")],
    };
    if prop == "C05" || prop == "C10" || prop == "C01" {
        run_raw(rep, cfg, &d3, seed);
    } else {
        run_cmd4(rep, cfg, &d3, seed);
    }
}
