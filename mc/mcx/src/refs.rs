//! Reference models (DESIGN Appendix A). Deliberately boring: chars, Strings, Vecs.

use std::collections::BTreeSet;

// ---------------------------------------------------------------- A.1 tokeniser

/// All token lists the statement of C07 admits for `line` (forks only at `\x`, x not quote/backslash,
/// inside quotes, and at a line ending right after a backslash inside quotes).
pub fn tokens_adm(line: &str) -> Vec<Vec<String>> {
    #[derive(Clone, PartialEq, Eq, PartialOrd, Ord)]
    enum Mode {
        Space,
        Normal,
        Quoted,
        Esc,
    }
    #[derive(Clone, PartialEq, Eq, PartialOrd, Ord)]
    struct St {
        mode: Mode,
        cur: String,
        out: Vec<String>,
    }
    let mut set: BTreeSet<St> = BTreeSet::new();
    set.insert(St {
        mode: Mode::Space,
        cur: String::new(),
        out: vec![],
    });
    for c in line.chars() {
        let mut next = BTreeSet::new();
        for mut s in set {
            match s.mode {
                Mode::Space => {
                    if c == ' ' {
                    } else if c == '"' {
                        s.cur.clear();
                        s.mode = Mode::Quoted;
                    } else {
                        s.cur.clear();
                        s.cur.push(c);
                        s.mode = Mode::Normal;
                    }
                    next.insert(s);
                }
                Mode::Normal => {
                    if c == ' ' {
                        let t = std::mem::take(&mut s.cur);
                        s.out.push(t);
                        s.mode = Mode::Space;
                    } else {
                        s.cur.push(c);
                    }
                    next.insert(s);
                }
                Mode::Quoted => {
                    if c == '"' {
                        let t = std::mem::take(&mut s.cur);
                        s.out.push(t);
                        s.mode = Mode::Space;
                    } else if c == '\\' {
                        s.mode = Mode::Esc;
                    } else {
                        s.cur.push(c);
                    }
                    next.insert(s);
                }
                Mode::Esc => {
                    s.mode = Mode::Quoted;
                    if c == '"' || c == '\\' {
                        s.cur.push(c);
                        next.insert(s);
                    } else {
                        let mut a = s.clone();
                        a.cur.push(c);
                        next.insert(a);
                        s.cur.push('\\');
                        s.cur.push(c);
                        next.insert(s);
                    }
                }
            }
        }
        set = next;
    }
    let mut res: BTreeSet<Vec<String>> = BTreeSet::new();
    for mut s in set {
        match s.mode {
            Mode::Space => {
                res.insert(s.out);
            }
            Mode::Normal | Mode::Quoted => {
                s.out.push(s.cur);
                res.insert(s.out);
            }
            Mode::Esc => {
                let mut a = s.out.clone();
                a.push(s.cur.clone());
                res.insert(a);
                s.cur.push('\\');
                s.out.push(s.cur);
                res.insert(s.out);
            }
        }
    }
    res.into_iter().collect()
}

/// Quoted rendering of a list of strings (the round-trip law of C07).
pub fn render_list(list: &[String]) -> String {
    let mut s = String::new();
    for (i, t) in list.iter().enumerate() {
        if i > 0 {
            s.push(' ');
        }
        s.push('"');
        for c in t.chars() {
            if c == '"' || c == '\\' {
                s.push('\\');
            }
            s.push(c);
        }
        s.push('"');
    }
    s
}

// ---------------------------------------------------------------- A.2 classifier

#[derive(Clone, Debug, PartialEq, Eq, Hash, PartialOrd, Ord)]
pub enum RArg {
    DoubleDash,
    Long(String),
    Short(char),
    Value(String),
}

pub fn classify(tokens: &[String]) -> Vec<RArg> {
    let mut out = vec![];
    let mut values_only = false;
    for t in tokens {
        if values_only {
            out.push(RArg::Value(t.clone()));
        } else if t == "--" {
            out.push(RArg::DoubleDash);
            values_only = true;
        } else if t.starts_with("--") {
            out.push(RArg::Long(t[2..].to_string()));
        } else if t.starts_with('-') && t.len() > 1 {
            for c in t[1..].chars() {
                out.push(RArg::Short(c));
            }
        } else {
            out.push(RArg::Value(t.clone()));
        }
    }
    out
}

/// The re-join law of C08 stated independently of `classify`: walking the token list, the items must
/// spell each token exactly (a cluster token consumes one Short item per scalar).
pub fn rejoin_ok(tokens: &[String], items: &[RArg]) -> bool {
    let mut it = items.iter();
    let mut after_dd = false;
    for t in tokens {
        if after_dd {
            match it.next() {
                Some(RArg::Value(v)) if v == t => {}
                _ => return false,
            }
            continue;
        }
        let b = t.as_bytes();
        if t == "--" {
            if it.next() != Some(&RArg::DoubleDash) {
                return false;
            }
            after_dd = true;
        } else if b.len() > 2 && b[0] == b'-' && b[1] == b'-' {
            match it.next() {
                Some(RArg::Long(n)) if format!("--{}", n) == *t => {}
                _ => return false,
            }
        } else if b.len() > 1 && b[0] == b'-' {
            let mut spelled = String::from("-");
            for _ in t[1..].chars() {
                match it.next() {
                    Some(RArg::Short(c)) => spelled.push(*c),
                    _ => return false,
                }
            }
            if spelled != *t {
                return false;
            }
        } else {
            match it.next() {
                Some(RArg::Value(v)) if v == t => {}
                _ => return false,
            }
        }
    }
    it.next().is_none()
}

pub fn render_arg(a: &embedded_cli::arguments::Arg<'_>) -> RArg {
    use embedded_cli::arguments::Arg;
    match a {
        Arg::DoubleDash => RArg::DoubleDash,
        Arg::LongOption(n) => RArg::Long(n.to_string()),
        Arg::ShortOption(c) => RArg::Short(*c),
        Arg::Value(v) => RArg::Value(v.to_string()),
    }
}

// ---------------------------------------------------------------- A.6 help request

#[derive(Clone, Copy, Debug, PartialEq, Eq)]
pub enum HelpKind {
    NotHelp,
    All,
    Command,
    /// `help` followed by an option or `--`: the statement does not say
    Unspecified,
}

pub fn help_kind(tokens: &[String]) -> HelpKind {
    if tokens.is_empty() {
        return HelpKind::NotHelp;
    }
    let items = classify(&tokens[1..]);
    if tokens[0] == "help" {
        match items.first() {
            None => HelpKind::All,
            Some(RArg::Value(_)) => HelpKind::Command,
            Some(_) => HelpKind::Unspecified,
        }
    } else {
        for it in &items {
            match it {
                RArg::DoubleDash => break,
                RArg::Long(n) if n == "help" => return HelpKind::Command,
                RArg::Short('h') => return HelpKind::Command,
                _ => {}
            }
        }
        HelpKind::NotHelp
    }
}

// ---------------------------------------------------------------- ideal editor

#[derive(Clone, Debug, PartialEq, Eq, Hash)]
pub struct REditor {
    pub line: Vec<char>,
    pub cursor: usize,
}

impl REditor {
    pub fn from_text(text: &str, cursor: usize) -> Self {
        REditor {
            line: text.chars().collect(),
            cursor,
        }
    }
    pub fn text(&self) -> String {
        self.line.iter().collect()
    }
    pub fn byte_len(&self) -> usize {
        self.line.iter().map(|c| c.len_utf8()).sum()
    }
    /// returns whether accepted
    pub fn insert(&mut self, c: char, cap: usize) -> bool {
        if self.byte_len() + c.len_utf8() <= cap {
            self.line.insert(self.cursor, c);
            self.cursor += 1;
            true
        } else {
            false
        }
    }
    pub fn backspace(&mut self) -> bool {
        if self.cursor > 0 {
            self.line.remove(self.cursor - 1);
            self.cursor -= 1;
            true
        } else {
            false
        }
    }
    pub fn left(&mut self) -> bool {
        if self.cursor > 0 {
            self.cursor -= 1;
            true
        } else {
            false
        }
    }
    pub fn right(&mut self) -> bool {
        if self.cursor < self.line.len() {
            self.cursor += 1;
            true
        } else {
            false
        }
    }
}

// ---------------------------------------------------------------- A.3 history

/// entries oldest first
pub fn hist_push(entries: &[String], line: &str, cap: usize) -> (Vec<String>, bool) {
    if line.is_empty() || line.len() + 1 > cap {
        return (entries.to_vec(), false);
    }
    let mut e: Vec<String> = entries.to_vec();
    if e.last().map(|s| s.as_str()) == Some(line) {
        return (e, true);
    }
    e.retain(|x| x != line);
    let need = line.len() + 1;
    while e.iter().map(|x| x.len() + 1).sum::<usize>() + need > cap {
        e.remove(0);
    }
    e.push(line.to_string());
    (e, true)
}

/// Split the used part of the raw history buffer into entries; None if the representation is broken.
pub fn hist_entries(raw: &[u8]) -> Option<Vec<String>> {
    if raw.is_empty() {
        return Some(vec![]);
    }
    if *raw.last().unwrap() != 0 {
        return None;
    }
    let mut out = vec![];
    for part in raw[..raw.len() - 1].split(|b| *b == 0) {
        if part.is_empty() {
            return None;
        }
        out.push(String::from_utf8(part.to_vec()).ok()?);
    }
    Some(out)
}

/// Map a byte cursor into the raw buffer to an entry index.
pub fn hist_pos(entries: &[String], cursor: Option<usize>) -> Result<Option<usize>, String> {
    match cursor {
        None => Ok(None),
        Some(c) => {
            let mut off = 0;
            for (i, e) in entries.iter().enumerate() {
                if off == c {
                    return Ok(Some(i));
                }
                off += e.len() + 1;
            }
            Err(format!("history cursor {} is not the start of an entry", c))
        }
    }
}

// ---------------------------------------------------------------- A.9 strict UTF-8 decoder (Unicode Table 3-7)

#[derive(Clone, Debug, PartialEq, Eq, Hash, Default)]
pub struct StrictUtf8 {
    pend: Vec<u8>,
    need: u8,
    lo: u8,
    hi: u8,
}

impl StrictUtf8 {
    pub fn idle(&self) -> bool {
        self.need == 0
    }
    pub fn reset(&mut self) {
        self.pend.clear();
        self.need = 0;
    }
    /// Feed one byte; returns the scalar completed by this byte, if a *contiguous well-formed*
    /// sequence ends here.
    pub fn push(&mut self, b: u8) -> Option<char> {
        if self.need > 0 {
            if b >= self.lo && b <= self.hi {
                self.pend.push(b);
                self.need -= 1;
                self.lo = 0x80;
                self.hi = 0xBF;
                if self.need == 0 {
                    let s = std::str::from_utf8(&self.pend).expect("strict decoder built invalid utf8");
                    let c = s.chars().next().unwrap();
                    self.pend.clear();
                    return Some(c);
                }
                return None;
            }
            // abandon, re-examine b as a possible lead
            self.pend.clear();
            self.need = 0;
        }
        let (need, lo, hi) = match b {
            0x00..=0x7F => return Some(b as char),
            0xC2..=0xDF => (1, 0x80, 0xBF),
            0xE0 => (2, 0xA0, 0xBF),
            0xE1..=0xEC | 0xEE..=0xEF => (2, 0x80, 0xBF),
            0xED => (2, 0x80, 0x9F),
            0xF0 => (3, 0x90, 0xBF),
            0xF1..=0xF3 => (3, 0x80, 0xBF),
            0xF4 => (3, 0x80, 0x8F),
            _ => return None,
        };
        self.pend.push(b);
        self.need = need;
        self.lo = lo;
        self.hi = hi;
        None
    }
}

// ---------------------------------------------------------------- A.4 completion

#[derive(Clone, Debug)]
pub struct CompletionSpec {
    /// visible command names in any order
    pub names: Vec<String>,
    /// whether `help` is a candidate (None = either way is accepted)
    pub help_candidate: Option<bool>,
}

/// Longest common prefix of a set of strings on scalar boundaries.
pub fn common_prefix(strs: &[&str]) -> String {
    if strs.is_empty() {
        return String::new();
    }
    let first: Vec<char> = strs[0].chars().collect();
    let mut n = first.len();
    for s in &strs[1..] {
        let k = first
            .iter()
            .zip(s.chars())
            .take_while(|(a, b)| **a == *b)
            .count();
        n = n.min(k);
    }
    first[..n].iter().collect()
}

/// Is `(new_text)` an admissible result of Tab on `(text, cursor)` with buffer capacity `cap`?
/// Returns Err(reason) when it is not.
pub fn completion_admissible(
    spec: &CompletionSpec,
    text: &str,
    cap: usize,
    new_text: &str,
) -> Result<(), String> {
    let help_opts: Vec<bool> = match spec.help_candidate {
        Some(b) => vec![b],
        None => vec![true, false],
    };
    let mut reasons = vec![];
    for h in help_opts {
        match completion_admissible_1(spec, h, text, cap, new_text) {
            Ok(()) => return Ok(()),
            Err(e) => reasons.push(e),
        }
    }
    Err(reasons.join(" | "))
}

fn completion_admissible_1(
    spec: &CompletionSpec,
    with_help: bool,
    text: &str,
    cap: usize,
    new_text: &str,
) -> Result<(), String> {
    if new_text.len() > cap {
        return Err(format!("result {:?} exceeds the buffer of {}", new_text, cap));
    }
    let lead = text.len() - text.trim_start_matches(' ').len();
    let w = &text[lead..];
    let unchanged = new_text == text;
    if w.is_empty() {
        return if unchanged { Ok(()) } else { Err("blank line changed".into()) };
    }
    // an argument has been started: a blank followed by a non-blank
    let word_end = w.find(' ').unwrap_or(w.len());
    let word = &w[..word_end];
    let rest = &w[word_end..];
    if rest.chars().any(|c| c != ' ') {
        return if unchanged {
            Ok(())
        } else {
            Err("line with a started argument changed".into())
        };
    }
    let trailing_blanks = !rest.is_empty();
    if trailing_blanks && unchanged {
        // word followed only by blanks: leaving it alone is admissible
        return Ok(());
    }
    let mut cands: Vec<&str> = spec
        .names
        .iter()
        .map(|s| s.as_str())
        .filter(|n| n.starts_with(word))
        .collect();
    if with_help && "help".starts_with(word) && !cands.contains(&"help") {
        cands.push("help");
    }
    cands.sort();
    cands.dedup();
    if cands.is_empty() {
        return if unchanged {
            Ok(())
        } else {
            Err(format!("no candidate for {:?} but line changed to {:?}", word, new_text))
        };
    }
    let conts: Vec<&str> = cands.iter().map(|n| &n[word.len()..]).collect();
    let ext = common_prefix(&conts);
    let base = &text[..lead + word.len()];
    let full = format!("{}{}", base, ext);
    if full.len() <= cap {
        let mut want = full.clone();
        if cands.len() == 1 && want.len() + 1 <= cap {
            want.push(' ');
        }
        if new_text == want {
            return Ok(());
        }
        // a word followed by blanks may also be completed keeping (some of) its blanks only if the
        // result is the same text; nothing else is admissible
        return Err(format!(
            "candidates {:?}: expected {:?}, got {:?}",
            cands, want, new_text
        ));
    }
    // continuation does not fit: any scalar-boundary prefix of ext that fits, no blank
    if let Some(p) = new_text.strip_prefix(base) {
        if ext.starts_with(p) && ext.is_char_boundary(p.len()) {
            return Ok(());
        }
    }
    if unchanged {
        return Ok(());
    }
    Err(format!(
        "candidates {:?}, continuation {:?} does not fit in {}: got {:?}",
        cands, ext, cap, new_text
    ))
}

#[cfg(test)]
mod tests {
    use super::*;

    fn s(v: &[&str]) -> Vec<String> {
        v.iter().map(|x| x.to_string()).collect()
    }

    #[test]
    fn tokens_basic() {
        assert_eq!(tokens_adm("a  b"), vec![s(&["a", "b"])]);
        assert_eq!(tokens_adm("\"\" abc"), vec![s(&["", "abc"])]);
        assert_eq!(tokens_adm("\"a b\"c"), vec![s(&["a b", "c"])]);
        assert_eq!(tokens_adm("\"a\\\"b\""), vec![s(&["a\"b"])]);
        assert_eq!(tokens_adm("a\"b"), vec![s(&["a\"b"])]);
        assert_eq!(tokens_adm("   "), vec![Vec::<String>::new()]);
        assert_eq!(tokens_adm("\"\\x\"").len(), 2);
    }

    #[test]
    fn roundtrip() {
        let l = s(&["", "a b", "\"", "\\", "é\\\""]);
        assert_eq!(tokens_adm(&render_list(&l)), vec![l]);
    }

    #[test]
    fn classify_basic() {
        let t = s(&["-ab", "--", "-x", "--y"]);
        let items = classify(&t);
        assert_eq!(
            items,
            vec![
                RArg::Short('a'),
                RArg::Short('b'),
                RArg::DoubleDash,
                RArg::Value("-x".into()),
                RArg::Value("--y".into())
            ]
        );
        assert!(rejoin_ok(&t, &items));
        assert_eq!(classify(&s(&["---x", "-", ""])), vec![RArg::Long("-x".into()), RArg::Value("-".into()), RArg::Value("".into())]);
    }

    #[test]
    fn hist() {
        let (e, r) = hist_push(&s(&["a", "b"]), "a", 6);
        assert!(r);
        assert_eq!(e, s(&["b", "a"]));
        let (e, _) = hist_push(&s(&["a", "b"]), "cc", 6);
        assert_eq!(e, s(&["b", "cc"]));
        let (e, r) = hist_push(&s(&["a", "b"]), "cccccc", 6);
        assert!(!r);
        assert_eq!(e, s(&["a", "b"]));
    }

    #[test]
    fn strict() {
        let mut d = StrictUtf8::default();
        assert_eq!(d.push(0xC0), None);
        assert_eq!(d.push(0xAF), None);
        assert_eq!(d.push(0xE2), None);
        assert_eq!(d.push(0x82), None);
        assert_eq!(d.push(0xAC), Some('€'));
        assert_eq!(d.push(0xED), None);
        assert_eq!(d.push(0xA0), None);
        assert_eq!(d.push(0x80), None);
    }

    #[test]
    fn completion() {
        let spec = CompletionSpec { names: s(&["get-led", "set", "get-adc"]), help_candidate: Some(true) };
        assert!(completion_admissible(&spec, "g", 20, "get-").is_ok());
        assert!(completion_admissible(&spec, "g", 20, "get-led ").is_err());
        assert!(completion_admissible(&spec, "s", 20, "set ").is_ok());
        assert!(completion_admissible(&spec, "s", 3, "set").is_ok());
        assert!(completion_admissible(&spec, "s", 2, "se").is_ok());
        assert!(completion_admissible(&spec, "s", 2, "s").is_ok());
        assert!(completion_admissible(&spec, "h", 20, "help ").is_ok());
        assert!(completion_admissible(&spec, "x", 20, "x").is_ok());
        assert!(completion_admissible(&spec, "s a", 20, "s a").is_ok());
    }
}
