//! C13: closure over the real `Writer`'s internal state under every output call of a small alphabet;
//! every transition is executed end to end inside a handler (on Enter) and inside `Cli::write`,
//! from several editor states, and compared with the framing rule (DESIGN A.8).

use crate::base::*;
use crate::bfs::*;
use crate::e1::{framed, script_out};
use crate::session::*;
use embedded_cli::command::RawCommand;
use embedded_cli::writer::Writer;

/// interned `'static` copies of scripts (events need `&'static [Piece]`; interning bounds the leak by the
/// number of distinct scripts)
pub fn intern_script(v: Vec<Piece>) -> &'static [Piece] {
    use std::collections::HashMap;
    use std::sync::{OnceLock, RwLock};
    static POOL: OnceLock<RwLock<HashMap<Vec<Piece>, &'static [Piece]>>> = OnceLock::new();
    let pool = POOL.get_or_init(|| RwLock::new(HashMap::new()));
    if let Some(x) = pool.read().unwrap().get(&v) {
        return x;
    }
    let mut m = pool.write().unwrap();
    if let Some(x) = m.get(&v) {
        return x;
    }
    let l: &'static [Piece] = Box::leak(v.clone().into_boxed_slice());
    m.insert(v, l);
    l
}

pub struct WriterModel {
    pub pieces: Vec<Piece>,
    pub contexts: Vec<(String, Sess)>,
}

pub fn all_pieces(max_len: u32) -> Vec<Piece> {
    let sigma = ["a", "é", "\n", "\r"];
    let mut v = vec![];
    let total = crate::e3::count_strings(4, max_len);
    let mut s = String::new();
    for i in 0..total {
        crate::e3::nth_string(&sigma, i, &mut s);
        let text: &'static str = Box::leak(s.clone().into_boxed_str());
        for kind in [PieceKind::WriteStr, PieceKind::WritelnStr, PieceKind::UWrite, PieceKind::FmtWrite, PieceKind::FmtChars, PieceKind::UChars] {
            v.push(Piece { kind, text });
        }
    }
    v
}

/// representative editor states in which the output is produced
pub fn contexts() -> Vec<(String, Sess)> {
    let mut v = vec![];
    let mk = |label: &str, cb: usize, keys: &[Key]| {
        let mut s = new_sess(cb, 16, "$ ", false);
        for k in keys {
            apply_in_place::<RawCommand<'static>>(&mut s, &Ev::Key(*k, HMode::Silent));
        }
        (label.to_string(), s)
    };
    v.push(mk("empty line", 8, &[]));
    v.push(mk("cursor at end", 8, &[Key::Ch('x'), Key::Ch(' '), Key::Ch('y')]));
    v.push(mk("cursor inside", 8, &[Key::Ch('x'), Key::Ch('y'), Key::Ch('z'), Key::Left, Key::Left]));
    v.push(mk("buffer full", 3, &[Key::Ch('x'), Key::Ch('y'), Key::Ch('z'), Key::Left]));
    v.push(mk("after recall", 8, &[Key::Ch('x'), Key::Ch('é'), Key::Lf, Key::Up]));
    v.push(mk("multi-byte under cursor", 8, &[Key::Ch('x'), Key::Ch('𝄞'), Key::Ch('é'), Key::Left, Key::Left]));
    v
}

fn writer_state(script: &[Piece]) -> Result<(bool, [u8; 2]), String> {
    let mut sink = Sink::default();
    let mut w = Writer::new(&mut sink);
    run_script(&mut w, script).map_err(|_| "sink error".to_string())?;
    Ok(w.__verif_state())
}

impl Model for WriterModel {
    type State = Vec<Piece>;
    type Key = ((bool, [u8; 2]), (bool, bool), u64);
    type Event = Piece;

    fn name(&self) -> String {
        format!("Writer state closure over {} output calls, executed end to end in {} editor states", self.pieces.len(), self.contexts.len())
    }
    fn inits(&self) -> Vec<(String, Vec<Piece>)> {
        vec![("initial".into(), vec![])]
    }
    fn events(&self) -> Vec<Piece> {
        self.pieces.clone()
    }
    fn key(&self, s: &Vec<Piece>) -> Self::Key {
        let out = script_out(s);
        // one-step behaviour: the framing decision (is_dirty seen through Cli::write) after every next call;
        // separates writer states the hook accessor cannot tell apart
        let sig = {
            use std::hash::{Hash, Hasher};
            let mut h = std::collections::hash_map::DefaultHasher::new();
            let n_prefix = script_out(s).len();
            // probes: every kind of call with the texts that can change the writer's mind
            for p in self.pieces.iter().filter(|p| matches!(p.text, "" | "a" | "\n" | "\r" | "a\n" | "\ra")) {
                let mut sc = s.clone();
                sc.push(*p);
                let leaked: &'static [Piece] = intern_script(sc);
                let (_, calls) = apply::<RawCommand<'static>>(&self.contexts[0].1, &Ev::Write(leaked));
                let bytes = sink_bytes(&calls[0].sink);
                // only what follows the already emitted prefix matters
                bytes[bytes.len().min(4 + n_prefix)..].hash(&mut h);
            }
            h.finish()
        };
        (writer_state(s).unwrap_or((false, [0xEE; 2])), (!out.is_empty(), out.ends_with('\n')), sig)
    }
    fn render_event(&self, e: &Piece) -> String {
        format!("{:?}({:?})", e.kind, e.text)
    }
    fn step(&self, s: &Vec<Piece>, e: &Piece, stats: &mut Stats) -> StepOut<Vec<Piece>> {
        let mut script = s.clone();
        script.push(*e);
        let leaked: &'static [Piece] = intern_script(script.clone());
        let out = script_out(&script);
        let body = framed(&out);
        let mut v = vec![];
        let render: Vec<String> = script.iter().map(|p| format!("{:?}({:?})", p.kind, p.text)).collect();
        for (label, ctx) in &self.contexts {
            let before = snap(&ctx.cli);
            let line = String::from_utf8_lossy(&before.text).into_owned();
            // (1) inside Cli::write
            let (n, calls) = apply::<RawCommand<'static>>(ctx, &Ev::Write(leaked));
            stats.hit("write_executions");
            let c = &calls[0];
            if let Some(p) = &c.panicked {
                v.push(Viol::new("C13/panic", format!("{:?} in [{}]: {}", render, label, p)));
                continue;
            }
            let bytes = sink_bytes(&c.sink);
            let nch = line.chars().count();
            let want_bytes = format!("\r\x1b[2K{}{}{}{}", body, before.prompt, line, "\x1b[D".repeat(nch - before.cursor.min(nch)));
            let got = screen_effect(before.prompt, &line, before.cursor, &bytes);
            let want = screen_effect(before.prompt, &line, before.cursor, want_bytes.as_bytes());
            let _ = &n;
            if c.after.text != before.text || c.after.cursor != before.cursor {
                v.push(Viol::new("C13/write-changed-line", format!("{:?} in [{}]", render, label)));
            } else if let Some(u) = &got.unknown {
                v.push(Viol::new("MACHINERY/emulator-unknown-sequence", u.clone()));
            } else if got != want {
                let cls = if got.done == want.done && got.cur == want.cur {
                    "C13/line-not-redisplayed"
                } else if got.done.len() < want.done.len() {
                    "C13/missing-line-break"
                } else if got.done.len() > want.done.len() {
                    "C13/extra-line-break"
                } else {
                    "C13/write-framing"
                };
                v.push(Viol::new(
                    cls,
                    format!("Cli::write {:?} in [{}]: screen rows {:?} + {:?}@{}, expected rows {:?} + {:?}@{}", render, label, got.done, got.cur, got.col, want.done, want.cur, want.col),
                ));
            }
            // (2) inside a handler on Enter (only when the line dispatches)
            let toks = crate::refs::tokens_adm(&line);
            if toks.iter().all(|t| !t.is_empty()) {
                let (_n2, calls) = apply::<RawCommand<'static>>(ctx, &Ev::Key(Key::Lf, HMode::Script(leaked)));
                stats.hit("handler_executions");
                let c = calls.last().unwrap();
                if let Some(p) = &c.panicked {
                    v.push(Viol::new("C13/panic", format!("handler {:?} in [{}]: {}", render, label, p)));
                    continue;
                }
                let bytes: Vec<u8> = calls.iter().flat_map(|c| sink_bytes(&c.sink)).collect();
                let want_bytes = format!("\r\n{}{}", body, before.prompt);
                let got = screen_effect(before.prompt, &line, before.cursor, &bytes);
                let want = screen_effect(before.prompt, &line, before.cursor, want_bytes.as_bytes());
                if let Some(u) = &got.unknown {
                    v.push(Viol::new("MACHINERY/emulator-unknown-sequence", u.clone()));
                } else if got != want {
                    let cls = if got.done.len() < want.done.len() {
                        "C13/missing-line-break"
                    } else if got.done.len() > want.done.len() {
                        "C13/extra-line-break"
                    } else {
                        "C13/handler-framing"
                    };
                    v.push(Viol::new(
                        cls,
                        format!("handler output {:?} in [{}]: screen rows {:?} + {:?}@{}, expected rows {:?} + {:?}@{}", render, label, got.done, got.cur, got.col, want.done, want.cur, want.col),
                    ));
                }
            }
            // (3) the same script in a handler that then reports a parse error, and in one that also changes the
            // prompt: the handler's text keeps its own lines, exactly one `error:` row follows / the new prompt
            // starts a fresh line
            if toks.iter().all(|t| !t.is_empty()) {
                for variant in 0..2 {
                    let mode = if variant == 0 { HMode::ScriptErr(leaked) } else { HMode::ScriptPrompt(leaked, "é> ") };
                    let (_n3, calls) = apply::<RawCommand<'static>>(ctx, &Ev::Key(Key::Lf, mode));
                    stats.hit("handler_error_or_prompt_executions");
                    let c = calls.last().unwrap();
                    if let Some(p) = &c.panicked {
                        v.push(Viol::new("C13/panic", format!("handler {:?} ({}) in [{}]: {}", render, variant, label, p)));
                        continue;
                    }
                    let bytes: Vec<u8> = calls.iter().flat_map(|c| sink_bytes(&c.sink)).collect();
                    let new_prompt = if variant == 0 { before.prompt } else { "é> " };
                    let want_bytes = format!("\r\n{}{}", body, new_prompt);
                    let got = screen_effect(before.prompt, &line, before.cursor, &bytes);
                    let want = screen_effect(before.prompt, &line, before.cursor, want_bytes.as_bytes());
                    if let Some(u) = &got.unknown {
                        v.push(Viol::new("MACHINERY/emulator-unknown-sequence", u.clone()));
                        continue;
                    }
                    let ok = if variant == 0 {
                        // rows of the handler's text, then exactly one row that is the error message
                        got.cur == want.cur
                            && got.col == want.col
                            && got.done.len() == want.done.len() + 1
                            && got.done[..want.done.len()] == want.done[..]
                            && got.done[want.done.len()].starts_with("error:")
                    } else {
                        got == want
                    };
                    if !ok {
                        v.push(Viol::new(
                            if variant == 0 { "C13/handler-output-then-error-framing" } else { "C13/handler-output-and-prompt-framing" },
                            format!("handler output {:?} then {} in [{}]: screen rows {:?} + {:?}@{}, expected rows {:?}{} + {:?}@{}", render, if variant == 0 { "a parse error" } else { "a prompt change" }, label, got.done, got.cur, got.col, want.done, if variant == 0 { " + one `error:` row" } else { "" }, want.cur, want.col),
                        ));
                    }
                }
            }
        }
        // keep scripts short: the key abstracts the past, so only the writer state matters for the future
        StepOut::new(if v.is_empty() { Some(script) } else { None }, v)
    }
}
