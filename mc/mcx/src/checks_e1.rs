//! Configurations of the E1 session explorations, one function per property.

use crate::bfs::*;
use crate::cmds::*;
use crate::e1::*;
use crate::report::Report;
use crate::session::*;
use embedded_cli::command::RawCommand;

pub fn k(key: Key) -> Ev {
    Ev::Key(key, HMode::Silent)
}
pub fn ch(c: char) -> Ev {
    k(Key::Ch(c))
}
pub fn kh(key: Key, h: HMode) -> Ev {
    Ev::Key(key, h)
}

pub fn leak_script(v: Vec<Piece>) -> &'static [Piece] {
    Box::leak(v.into_boxed_slice())
}
pub fn leak_str(s: String) -> &'static str {
    Box::leak(s.into_boxed_str())
}
pub fn wr(text: &'static str) -> Ev {
    Ev::Write(leak_script(vec![Piece { kind: PieceKind::WriteStr, text }]))
}

pub fn base_cfg(prop: &'static str, label: String, cb: usize, hb: usize, events: Vec<Ev>, mon: Mon) -> Cfg {
    Cfg {
        label,
        prop,
        cb,
        hb,
        prompt: "$ ",
        events,
        mon,
        names: vec![],
        help_on: cfg!(feature = "help"),
        short_sink: false,
        poison: false,
        prefilled: vec![],
    }
}

pub fn caps(tier: &str) -> Caps {
    if tier == "quick" {
        Caps { max_states: 1_500_000, max_wall_s: 120.0, max_rss_mb: 8_000, max_depth: usize::MAX }
    } else {
        Caps { max_states: 6_000_000, max_wall_s: 900.0, max_rss_mb: 24_000, max_depth: usize::MAX }
    }
}

pub fn run_raw(rep: &mut Report, cfg: Cfg, caps: &Caps, seed: u64) {
    let m = SessModel::<RawCommand<'static>>::new(cfg);
    run_model(rep, &m, caps, seed);
}

pub fn run_cmd4(rep: &mut Report, mut cfg: Cfg, caps: &Caps, seed: u64) {
    cfg.names = cmd4_names();
    let m = SessModel::<Cmd4>::new(cfg);
    run_model(rep, &m, caps, seed);
}

pub fn run_model<M: Model>(rep: &mut Report, m: &M, caps: &Caps, seed: u64) {
    if let Some(o) = maybe_replay(m) {
        if !o.name.is_empty() {
            rep.explorations.push(o);
        }
        return;
    }
    let o = explore(m, caps, seed);
    eprintln!("  {}", summary(&o));
    rep.explorations.push(o);
}

pub fn summary(o: &Outcome) -> String {
    format!(
        "{}: states={} transitions={} depth={} exhaustive={} cap={:?} viol={:?} {:.2}s",
        o.name, o.states, o.transitions, o.depth_completed, o.exhaustive, o.cap_hit, o.viol_counts, o.wall_s
    )
}

// ------------------------------------------------------------------ C05

pub fn c05(rep: &mut Report, tier: &str, seed: u64) {
    let caps = caps(tier);
    let max_cb = if tier == "quick" { 6 } else { 8 };
    let alphabet = vec![ch('a'), ch('b'), ch('é'), ch('中'), ch('𝄞'), k(Key::Bs), k(Key::Left), k(Key::Right)];
    for cb in 0..=max_cb {
        let mut cfg = base_cfg(
            "C05",
            format!("editor cb={} hb=0 raw", cb),
            cb,
            0,
            alphabet.clone(),
            Mon { editor: true, invariants: true, ..Default::default() },
        );
        cfg.poison = cb <= 4 || tier != "quick";
        let name = cfg.label.clone();
        run_raw(rep, cfg, &caps, seed);
        if cb >= 4 {
            rep.required.push((name.clone(), "editor_insert_rejected".into()));
            rep.required.push((name.clone(), "editor_insert_inside".into()));
            rep.required.push((name, "editor_backspace".into()));
        }
    }
    // lines replaced by recall / completion / submission are then edited
    let alphabet2 = vec![
        ch('a'),
        ch('é'),
        ch('b'),
        k(Key::Bs),
        k(Key::Left),
        k(Key::Right),
        k(Key::Up),
        k(Key::Down),
        k(Key::Tab),
        k(Key::Lf),
    ];
    let cfgs: Vec<(usize, usize)> = if tier == "quick" { vec![(3, 4), (4, 5)] } else { vec![(3, 4), (4, 5), (5, 6), (6, 6)] };
    for (cb, hb) in cfgs {
        let mut cfg = base_cfg(
            "C05",
            format!("editor+recall+completion cb={} hb={} cmd4", cb, hb),
            cb,
            hb,
            alphabet2.clone(),
            Mon { editor: true, invariants: true, ..Default::default() },
        );
        cfg.poison = tier != "quick";
        let name = cfg.label.clone();
        run_cmd4(rep, cfg, &caps, seed);
        rep.required.push((name, "editor_insert_inside".into()));
    }
}

// ------------------------------------------------------------------ C10

pub fn c10(rep: &mut Report, tier: &str, seed: u64) {
    let caps = caps(tier);
    let mon = Mon { history: true, invariants: true, ..Default::default() };
    let alphabet = vec![ch('a'), ch('é'), k(Key::Bs), k(Key::Lf), k(Key::Up), k(Key::Down)];
    let mut cfgs: Vec<(usize, usize)> = vec![];
    for cb in 0..=3 {
        for hb in 0..=7 {
            cfgs.push((cb, hb));
        }
    }
    cfgs.push((4, 6));
    cfgs.push((4, 8));
    for (cb, hb) in cfgs {
        let mut cfg = base_cfg("C10", format!("history cb={} hb={} raw 6ev", cb, hb), cb, hb, alphabet.clone(), mon.clone());
        cfg.poison = true;
        let name = cfg.label.clone();
        run_raw(rep, cfg, &caps, seed);
        if cb >= 3 && hb >= 6 {
            rep.required.push((name.clone(), "history_duplicate".into()));
            rep.required.push((name.clone(), "history_evict_multi".into()));
            rep.required.push((name.clone(), "history_recall_multibyte".into()));
            rep.required.push((name, "history_not_recorded".into()));
        }
    }
    if tier != "quick" {
        let alphabet = vec![ch('a'), ch('é'), ch(' '), k(Key::Bs), k(Key::Left), k(Key::Lf), k(Key::Up), k(Key::Down)];
        for (cb, hb) in [(3, 8), (4, 9), (5, 8), (5, 12), (2, 12)] {
            let mut cfg = base_cfg("C10", format!("history cb={} hb={} raw 8ev", cb, hb), cb, hb, alphabet.clone(), mon.clone());
            cfg.poison = false;
            run_raw(rep, cfg, &caps, seed);
        }
    }
}

// ------------------------------------------------------------------ C01

pub fn c01(rep: &mut Report, tier: &str, seed: u64) {
    let caps = caps(tier);
    let mon = Mon { dispatch: true, invariants: true, ..Default::default() };
    let alphabet = vec![
        ch('a'),
        ch(' '),
        ch('"'),
        ch('é'),
        ch('𝄞'),
        k(Key::Bs),
        k(Key::Left),
        k(Key::Right),
        k(Key::Up),
        k(Key::Down),
        k(Key::Tab),
        k(Key::Lf),
    ];
    let cfgs: Vec<(usize, usize)> = if tier == "quick" {
        vec![(0, 0), (1, 0), (3, 0), (0, 4), (1, 4), (3, 4), (4, 0)]
    } else {
        vec![(0, 0), (1, 0), (2, 3), (3, 0), (0, 4), (1, 4), (3, 4), (4, 5), (5, 0), (5, 6), (4, 6)]
    };
    for (cb, hb) in &cfgs {
        let cfg = base_cfg("C01", format!("dispatch cb={} hb={} raw", cb, hb), *cb, *hb, alphabet.clone(), mon.clone());
        let name = cfg.label.clone();
        run_raw(rep, cfg, &caps, seed);
        if *cb >= 3 {
            rep.required.push((name.clone(), "dispatch_with_args".into()));
            rep.required.push((name, "dispatch_other_key".into()));
        }
    }
    // derived command set: Tab changes the line; `h` lets `help` be completed and answered by the library
    let alphabet2 = vec![
        ch('a'),
        ch('b'),
        ch(' '),
        ch('é'),
        ch('h'),
        k(Key::Bs),
        k(Key::Left),
        k(Key::Up),
        k(Key::Tab),
        kh(Key::Lf, HMode::Write("o")),
    ];
    let cfgs2: Vec<(usize, usize)> = if tier == "quick" { vec![(4, 0), (5, 0)] } else { vec![(4, 5), (5, 6), (6, 0), (7, 0)] };
    for (cb, hb) in cfgs2 {
        let cfg = base_cfg("C01", format!("dispatch cb={} hb={} cmd4+tab", cb, hb), cb, hb, alphabet2.clone(), mon.clone());
        let name = cfg.label.clone();
        run_cmd4(rep, cfg, &caps, seed);
        rep.required.push((name, "dispatch_with_command".into()));
    }
}

// ------------------------------------------------------------------ C06 (+ C15 monitor)

pub const PROMPTS: [&str; 3] = ["", "$ ", "é> "];

pub fn c06_alphabet() -> Vec<Ev> {
    vec![
        ch('a'),
        ch('é'),
        ch('𝄞'),
        ch(' '),
        k(Key::Bs),
        k(Key::Left),
        k(Key::Right),
        k(Key::Up),
        k(Key::Down),
        k(Key::Tab),
        k(Key::Lf),
        kh(Key::Lf, HMode::Write("o")),
        kh(Key::Lf, HMode::Prompt("é> ")),
        wr("x"),
        wr("x\n"),
        wr(""),
        Ev::SetPrompt(""),
        Ev::SetPrompt("$ "),
        Ev::SetPrompt("é> "),
    ]
}

pub fn c06(rep: &mut Report, tier: &str, seed: u64, prop: &'static str) {
    let caps = caps(tier);
    let mon = if prop == "C15" {
        Mon { flush: true, invariants: true, ..Default::default() }
    } else {
        Mon { term: true, invariants: true, ..Default::default() }
    };
    let cfgs: Vec<(usize, usize, bool)> = if tier == "quick" {
        vec![(0, 0, false), (1, 0, false), (3, 0, false), (3, 4, false), (2, 3, true)]
    } else {
        vec![(0, 0, false), (1, 0, false), (3, 0, false), (3, 4, false), (2, 3, true), (4, 5, false), (3, 4, true), (5, 0, false)]
    };
    for (cb, hb, short) in cfgs {
        let mut cfg = base_cfg(
            prop,
            format!("screen cb={} hb={} cmd4 {}", cb, hb, if short { "one-byte-sink" } else { "accept-all" }),
            cb,
            hb,
            c06_alphabet(),
            mon.clone(),
        );
        cfg.short_sink = short;
        let name = cfg.label.clone();
        run_cmd4(rep, cfg, &caps, seed);
        if prop == "C06" {
            rep.required.push((name, "term_checked_calls".into()));
        } else {
            rep.required.push((name, "flush_calls_with_output".into()));
        }
    }
    // byte-granular: API calls land between ESC and [ and inside a multi-byte character
    let raw = |b: u8| k(Key::Raw(b));
    let alphabet = vec![
        raw(0x1b),
        raw(b'['),
        raw(b'A'),
        raw(b'D'),
        raw(b'a'),
        raw(0xC3),
        raw(0xA9),
        raw(8),
        raw(b'\n'),
        wr("x"),
        Ev::SetPrompt("é> "),
        Ev::SetPrompt("$ "),
    ];
    let (cb, hb) = if tier == "quick" { (2, 3) } else { (3, 4) };
    let cfg = base_cfg(prop, format!("screen byte-granular cb={} hb={} raw", cb, hb), cb, hb, alphabet, mon.clone());
    run_raw(rep, cfg, &caps, seed);
}
