//! Configurations of the E1 session explorations, one function per property.

use crate::bfs::*;
use crate::cmds::*;
use crate::e1::*;
use crate::report::Report;
use crate::session::*;
use embedded_cli::command::RawCommand;

pub fn k(key: Key) -> Ev {
    Ev::Key(key, HMode::Silent)
}
pub fn ch(c: char) -> Ev {
    k(Key::Ch(c))
}
pub fn kh(key: Key, h: HMode) -> Ev {
    Ev::Key(key, h)
}

pub fn leak_script(v: Vec<Piece>) -> &'static [Piece] {
    Box::leak(v.into_boxed_slice())
}
pub fn leak_str(s: String) -> &'static str {
    Box::leak(s.into_boxed_str())
}
pub fn wr(text: &'static str) -> Ev {
    Ev::Write(leak_script(vec![Piece { kind: PieceKind::WriteStr, text }]))
}

pub fn base_cfg(prop: &'static str, label: String, cb: usize, hb: usize, events: Vec<Ev>, mon: Mon) -> Cfg {
    Cfg {
        label,
        prop,
        cb,
        hb,
        prompt: "$ ",
        events,
        mon,
        names: vec![],
        help_on: cfg!(feature = "help"),
        short_sink: false,
        poison: false,
        prefilled: vec![],
        prefilled_sweep: vec![],
        prefilled_marks: vec![],
        deprecated_ctor: false,
        refine: false,
        refine_depth: 1,
        refine_probe: None,
        digest: None,
    }
}

/// With a facility compiled out its key must be completely inert (C16)
pub fn feat(mut m: Mon) -> Mon {
    m.up_down_noop = !cfg!(feature = "history");
    m.tab_noop = !cfg!(feature = "autocomplete");
    m
}

pub fn caps(tier: &str) -> Caps {
    if tier == "quick" {
        Caps { max_states: 1_500_000, max_wall_s: 120.0, max_rss_mb: 8_000, max_depth: usize::MAX }
    } else {
        Caps { max_states: 6_000_000, max_wall_s: 900.0, max_rss_mb: 24_000, max_depth: usize::MAX }
    }
}

/// small configurations get the behaviour-refined key (hidden state added by a change shows up)
fn auto_refine(cfg: &mut Cfg) {
    if cfg.cb <= 3 && cfg.hb <= 4 && cfg.events.len() <= 24 && cfg.digest.is_none() && cfg.prefilled.is_empty() && cfg.prefilled_sweep.is_empty() && cfg.prefilled_marks.is_empty() {
        cfg.refine = true;
    }
}

pub fn run_raw(rep: &mut Report, mut cfg: Cfg, caps: &Caps, seed: u64) {
    auto_refine(&mut cfg);
    let m = SessModel::<RawCommand<'static>>::new(cfg);
    run_model(rep, &m, caps, seed);
}

pub fn run_cmd4(rep: &mut Report, mut cfg: Cfg, caps: &Caps, seed: u64) {
    auto_refine(&mut cfg);
    cfg.names = cmd4_names();
    let m = SessModel::<Cmd4>::new(cfg);
    run_model(rep, &m, caps, seed);
}

pub fn run_cmdu(rep: &mut Report, mut cfg: Cfg, caps: &Caps, seed: u64) {
    cfg.names = cmdu_names();
    let m = SessModel::<CmdU>::new(cfg);
    run_model(rep, &m, caps, seed);
}

pub fn run_model<M: Model>(rep: &mut Report, m: &M, caps: &Caps, seed: u64) {
    if let Some(o) = maybe_replay(m) {
        if !o.name.is_empty() {
            rep.explorations.push(o);
        }
        return;
    }
    let o = explore(m, caps, seed);
    eprintln!("  {}", summary(&o));
    rep.explorations.push(o);
}

fn maybe_replay_active() -> bool {
    REPLAY.get().is_some()
}
fn bfs_replay_inactive() -> bool {
    REPLAY.get().is_none()
}

/// E6 on whole Cli instances for a session property: two instances, every interleaving up to `depth` events
pub fn two_instances<C: embedded_cli::service::Autocomplete + embedded_cli::service::Help>(rep: &mut Report, prop: &'static str, label: &str, cb: usize, hb: usize, events: &[Ev], depth: usize) {
    if REPLAY.get().is_some() && crate::report::REPLAY_CASE.get().is_none() {
        return;
    }
    let o = crate::e6::cli_interleavings::<C>(prop, label, cb, hb, events, depth);
    eprintln!("  {}: evaluations={} viol={:?} {:.2}s", o.name, o.evaluations, o.viol_counts, o.wall_s);
    rep.enumerations.push(o);
}

/// E6 sandwiches A^i B^j A^k (one step deeper than the complete interleavings)
pub fn two_instances_sandwich<C: embedded_cli::service::Autocomplete + embedded_cli::service::Help>(rep: &mut Report, prop: &'static str, label: &str, cb: usize, hb: usize, events: &[Ev], quick: bool) {
    if REPLAY.get().is_some() && crate::report::REPLAY_CASE.get().is_none() {
        return;
    }
    let shapes: Vec<(usize, usize, usize)> = if quick { vec![(3, 1, 1), (2, 1, 2), (2, 2, 1)] } else { vec![(3, 1, 1), (2, 1, 2), (2, 2, 1), (1, 2, 2), (4, 1, 1), (3, 2, 1), (3, 1, 2)] };
    let o = crate::e6::cli_sandwiches::<C>(prop, label, cb, hb, events, &shapes);
    eprintln!("  {}: evaluations={} viol={:?} {:.2}s", o.name, o.evaluations, o.viol_counts, o.wall_s);
    rep.enumerations.push(o);
}

pub fn summary(o: &Outcome) -> String {
    format!(
        "{}: states={} transitions={} depth={} exhaustive={} cap={:?} viol={:?} {:.2}s",
        o.name, o.states, o.transitions, o.depth_completed, o.exhaustive, o.cap_hit, o.viol_counts, o.wall_s
    )
}

// ------------------------------------------------------------------ C05

pub fn c05(rep: &mut Report, tier: &str, seed: u64, prop: &'static str) {
    // bounded runs first (long lines, long sessions), then the closures
    if prop == "C05" {
        crate::checks_scale::c05_scale(rep, tier, seed);
        // the edited line depends on this instance's keys only
        let ev = vec![ch('a'), ch('é'), ch('𝄞'), k(Key::Bs), k(Key::Left), k(Key::Right)];
        two_instances::<RawCommand<'static>>(rep, "C05", "RawCommand", 5, 0, &ev, if tier == "quick" { 4 } else { 5 });
        let ev = vec![ch('a'), ch('é'), k(Key::Bs), k(Key::Left), k(Key::Right), k(Key::Lf), k(Key::Up)];
        two_instances_sandwich::<RawCommand<'static>>(rep, "C05", "RawCommand", 6, 6, &ev, tier == "quick");
    }
    let caps = caps(tier);
    let max_cb = if tier == "quick" { 6 } else { 8 };
    let alphabet = vec![ch('a'), ch('b'), ch('é'), ch('中'), ch('𝄞'), k(Key::Bs), k(Key::Left), k(Key::Right)];
    for cb in 0..=max_cb {
        let mut cfg = base_cfg(
            prop,
            format!("editor cb={} hb=0 raw", cb),
            cb,
            0,
            alphabet.clone(),
            feat(Mon { editor: true, invariants: true, ..Default::default() }),
        );
        cfg.poison = cb <= 4 || tier != "quick";
        let name = cfg.label.clone();
        run_raw(rep, cfg, &caps, seed);
        if cb >= 4 {
            rep.required.push((name.clone(), "editor_insert_rejected".into()));
            rep.required.push((name.clone(), "editor_insert_inside".into()));
            rep.required.push((name, "editor_backspace".into()));
        }
    }
    // first / last scalar of every encoded length (code with lead-byte specific logic)
    let boundary = vec![
        ch('a'),
        ch('\u{80}'),
        ch('\u{7ff}'),
        ch('\u{800}'),
        ch('\u{ffff}'),
        ch('\u{10000}'),
        ch('\u{10ffff}'),
        k(Key::Bs),
        k(Key::Left),
        k(Key::Right),
    ];
    for cb in if tier == "quick" { vec![3, 5] } else { vec![3, 5, 7] } {
        let cfg = base_cfg(
            prop,
            format!("editor boundary scalars cb={} hb=0 raw", cb),
            cb,
            0,
            boundary.clone(),
            feat(Mon { editor: true, invariants: true, ..Default::default() }),
        );
        run_raw(rep, cfg, &caps, seed);
    }
    // lines replaced by recall / completion / submission are then edited
    let alphabet2 = vec![
        ch('a'),
        ch('é'),
        ch('b'),
        k(Key::Bs),
        k(Key::Left),
        k(Key::Right),
        k(Key::Up),
        k(Key::Down),
        k(Key::Tab),
        k(Key::Lf),
    ];
    let cfgs: Vec<(usize, usize)> = if tier == "quick" { vec![(3, 4), (4, 5)] } else { vec![(3, 4), (4, 5), (5, 6), (6, 6)] };
    for (cb, hb) in cfgs {
        let mut cfg = base_cfg(
            prop,
            format!("editor+recall+completion cb={} hb={} cmd4", cb, hb),
            cb,
            hb,
            alphabet2.clone(),
            feat(Mon { editor: true, invariants: true, ..Default::default() }),
        );
        cfg.poison = tier != "quick";
        let name = cfg.label.clone();
        run_cmd4(rep, cfg, &caps, seed);
        rep.required.push((name, "editor_insert_inside".into()));
    }
}

// ------------------------------------------------------------------ C10

pub fn c10(rep: &mut Report, tier: &str, seed: u64) {
    crate::checks_scale::c10_scale(rep, tier, seed);
    {
        let ev = vec![ch('a'), ch('b'), k(Key::Lf), k(Key::Up), k(Key::Down)];
        two_instances::<RawCommand<'static>>(rep, "C10", "RawCommand", 3, 6, &ev, if tier == "quick" { 5 } else { 6 });
    }
    let caps = caps(tier);
    let mon = Mon { history: true, invariants: true, ..Default::default() };
    let alphabet = vec![ch('a'), ch('é'), k(Key::Bs), k(Key::Left), k(Key::Lf), k(Key::Up), k(Key::Down)];
    let mut cfgs: Vec<(usize, usize)> = vec![];
    for cb in 0..=3 {
        for hb in 0..=7 {
            cfgs.push((cb, hb));
        }
    }
    cfgs.push((4, 6));
    cfgs.push((4, 8));
    // a line that fits the history buffer exactly while two entries are already stored (cb = hb - 1)
    cfgs.push((4, 5));
    cfgs.push((5, 6));
    for (cb, hb) in cfgs {
        let mut cfg = base_cfg("C10", format!("history cb={} hb={} raw 7ev", cb, hb), cb, hb, alphabet.clone(), mon.clone());
        cfg.poison = true;
        // behaviour-refined key in every quick configuration: a cache added to the history shows up
        cfg.refine = true;
        cfg.refine_depth = if cb * hb <= 15 { 2 } else { 1 };
        let name = cfg.label.clone();
        run_raw(rep, cfg, &caps, seed);
        if cb >= 3 && hb >= 6 {
            rep.required.push((name.clone(), "history_duplicate".into()));
            rep.required.push((name.clone(), "history_evict_multi".into()));
            rep.required.push((name.clone(), "history_recall_multibyte".into()));
            rep.required.push((name, "history_not_recorded".into()));
        }
    }
    // two different one-byte characters: several distinct short entries in the smallest buffers
    let ab = vec![ch('a'), ch('b'), k(Key::Bs), k(Key::Lf), k(Key::Up), k(Key::Down)];
    for (cb, hb) in [(2usize, 3usize), (2, 4), (3, 4), (3, 5), (3, 6), (4, 5)] {
        let mut cfg = base_cfg("C10", format!("history cb={} hb={} raw a/b", cb, hb), cb, hb, ab.clone(), mon.clone());
        cfg.poison = true;
        cfg.refine = true;
        cfg.refine_depth = 2;
        run_raw(rep, cfg, &caps, seed);
    }
    if tier != "quick" {
        let alphabet = vec![ch('a'), ch('é'), ch(' '), k(Key::Bs), k(Key::Left), k(Key::Lf), k(Key::Up), k(Key::Down)];
        for (cb, hb) in [(3, 8), (4, 9), (5, 8), (5, 12), (2, 12)] {
            let mut cfg = base_cfg("C10", format!("history cb={} hb={} raw 8ev", cb, hb), cb, hb, alphabet.clone(), mon.clone());
            cfg.poison = false;
            run_raw(rep, cfg, &caps, seed);
        }
    }
}

// ------------------------------------------------------------------ C01

pub fn c01(rep: &mut Report, tier: &str, seed: u64, prop: &'static str) {
    if prop == "C01" {
        crate::checks_scale::c01_scale(rep, tier, seed);
        // what one Cli dispatches must not depend on another Cli served in between
        let ev = vec![ch('a'), ch('b'), ch(' '), ch('"'), k(Key::Bs), k(Key::Left), k(Key::Up), k(Key::Tab), k(Key::Lf)];
        two_instances::<Cmd4>(rep, "C01", "derived enum Cmd4", 6, 8, &ev, if tier == "quick" { 4 } else { 5 });
        let ev = vec![ch('a'), ch('é'), ch(' '), k(Key::Bs), k(Key::Left), k(Key::Right), k(Key::Up), k(Key::Tab), k(Key::Lf)];
        two_instances_sandwich::<Cmd4>(rep, "C01", "derived enum Cmd4", 6, 8, &ev, tier == "quick");
    }
    let caps = caps(tier);
    let mon = feat(Mon { dispatch: true, invariants: true, ..Default::default() });
    let alphabet = vec![
        ch('a'),
        ch(' '),
        ch('"'),
        ch('é'),
        ch('𝄞'),
        k(Key::Bs),
        k(Key::Left),
        k(Key::Right),
        k(Key::Up),
        k(Key::Down),
        k(Key::Tab),
        k(Key::Lf),
        k(Key::Cr),
    ];
    let cfgs: Vec<(usize, usize)> = if tier == "quick" {
        vec![(0, 0), (1, 0), (3, 0), (0, 4), (1, 4), (3, 4), (4, 0)]
    } else {
        vec![(0, 0), (1, 0), (2, 3), (3, 0), (0, 4), (1, 4), (3, 4), (4, 5), (5, 0), (5, 6), (4, 6)]
    };
    for (cb, hb) in &cfgs {
        let cfg = base_cfg(prop, format!("dispatch cb={} hb={} raw", cb, hb), *cb, *hb, alphabet.clone(), mon.clone());
        let name = cfg.label.clone();
        run_raw(rep, cfg, &caps, seed);
        if *cb >= 3 {
            rep.required.push((name.clone(), "dispatch_with_args".into()));
            rep.required.push((name, "dispatch_other_key".into()));
        }
    }
    // derived command set: Tab changes the line; `h` lets `help` be completed and answered by the library
    let alphabet2 = vec![
        ch('a'),
        ch('b'),
        ch(' '),
        ch('é'),
        ch('h'),
        k(Key::Bs),
        k(Key::Left),
        k(Key::Up),
        k(Key::Tab),
        kh(Key::Lf, HMode::Write("o")),
    ];
    let cfgs2: Vec<(usize, usize)> = if tier == "quick" { vec![(4, 0), (5, 0)] } else { vec![(4, 5), (5, 6), (6, 0), (7, 0)] };
    for (cb, hb) in cfgs2 {
        let cfg = base_cfg(prop, format!("dispatch cb={} hb={} cmd4+tab", cb, hb), cb, hb, alphabet2.clone(), mon.clone());
        let name = cfg.label.clone();
        run_cmd4(rep, cfg, &caps, seed);
        rep.required.push((name, "dispatch_with_command".into()));
    }
}

// ------------------------------------------------------------------ C06 (+ C15 monitor)

pub const PROMPTS: [&str; 3] = ["", "$ ", "é> "];

pub fn c06_alphabet() -> Vec<Ev> {
    vec![
        ch('a'),
        ch('é'),
        ch('𝄞'),
        ch(' '),
        k(Key::Bs),
        k(Key::Left),
        k(Key::Right),
        k(Key::Up),
        k(Key::Down),
        k(Key::Tab),
        k(Key::Lf),
        kh(Key::Lf, HMode::Write("o")),
        kh(Key::Lf, HMode::Prompt("é> ")),
        wr("x"),
        wr("x\n"),
        wr(""),
        Ev::SetPrompt(""),
        Ev::SetPrompt("$ "),
        Ev::SetPrompt("é> "),
    ]
}

pub fn c06(rep: &mut Report, tier: &str, seed: u64, prop: &'static str) {
    if prop == "C06" || prop == "C15" {
        crate::checks_scale::c06_scale(rep, tier, seed, prop);
    }
    if prop == "C06" {
        let ev = vec![ch('a'), ch('é'), k(Key::Bs), k(Key::Left), k(Key::Up), k(Key::Tab), kh(Key::Lf, HMode::Write("o")), wr("x"), Ev::SetPrompt("é> ")];
        two_instances::<Cmd4>(rep, "C06", "derived enum Cmd4", 4, 6, &ev, if tier == "quick" { 3 } else { 4 });
    }
    let caps = caps(tier);
    let mon = feat(if prop == "C15" {
        Mon { flush: true, invariants: true, ..Default::default() }
    } else {
        Mon { term: true, invariants: true, ..Default::default() }
    });
    let cfgs: Vec<(usize, usize, bool)> = if tier == "quick" {
        vec![(0, 0, false), (1, 0, false), (3, 0, false), (3, 4, false), (2, 3, true)]
    } else {
        vec![(0, 0, false), (1, 0, false), (3, 0, false), (3, 4, false), (2, 3, true), (4, 5, false), (3, 4, true), (5, 0, false)]
    };
    for (cb, hb, short) in cfgs {
        let mut cfg = base_cfg(
            prop,
            format!("screen cb={} hb={} cmd4 {}", cb, hb, if short { "one-byte-sink" } else { "accept-all" }),
            cb,
            hb,
            c06_alphabet(),
            mon.clone(),
        );
        cfg.short_sink = short;
        let name = cfg.label.clone();
        run_cmd4(rep, cfg, &caps, seed);
        if prop != "C15" {
            rep.required.push((name, "term_checked_calls".into()));
        } else {
            rep.required.push((name, "flush_calls_with_output".into()));
        }
    }
    if prop == "C15" {
        // help listing / command help / parse errors / handler errors in plain and grouped command sets
        let events = vec![
            ch('a'),
            ch(' '),
            ch('-'),
            ch('h'),
            k(Key::Bs),
            k(Key::Left),
            k(Key::Up),
            k(Key::Tab),
            kh(Key::Lf, HMode::Write("o")),
            kh(Key::Lf, HMode::ParseErr),
            kh(Key::Lf, HMode::ParseErrKind(1)),
            kh(Key::Lf, HMode::ParseErrKind(2)),
            kh(Key::Lf, HMode::ParseErrKind(3)),
            kh(Key::Lf, HMode::ParseErrKind(4)),
            kh(Key::Lf, HMode::ParseErrKind(5)),
            kh(Key::Lf, HMode::Prompt("é> ")),
            wr("x"),
            Ev::SetPrompt("$ "),
        ];
        let (cb, hb) = if tier == "quick" { (4, 0) } else { (6, 3) };
        let mut cfg = base_cfg(prop, format!("help and error output cb={} hb={} command group", cb, hb), cb, hb, events.clone(), mon.clone());
        cfg.names = grp_names();
        let m = SessModel::<Grp<'static>>::new(cfg);
        run_model(rep, &m, &caps, seed);
        let mut cfg = base_cfg(prop, format!("help and error output cb={} hb={} plain enum", cb, hb), cb, hb, events, mon.clone());
        cfg.names = plain_a_names();
        let m = SessModel::<PlainA<'static>>::new(cfg);
        run_model(rep, &m, &caps, seed);
    }
    // byte-granular: API calls land between ESC and [ and inside a multi-byte character
    let raw = |b: u8| k(Key::Raw(b));
    let alphabet = vec![
        raw(0x1b),
        raw(b'['),
        raw(b'A'),
        raw(b'D'),
        raw(b'a'),
        raw(0xC3),
        raw(0xA9),
        raw(8),
        raw(b'\n'),
        wr("x"),
        Ev::SetPrompt("é> "),
        Ev::SetPrompt("$ "),
    ];
    let (cb, hb) = if tier == "quick" { (2, 3) } else { (3, 4) };
    let cfg = base_cfg(prop, format!("screen byte-granular cb={} hb={} raw", cb, hb), cb, hb, alphabet, mon.clone());
    run_raw(rep, cfg, &caps, seed);
}

// ------------------------------------------------------------------ C03

fn rep_ev(e: Ev, n: usize) -> Vec<Ev> {
    std::iter::repeat(e).take(n).collect()
}

/// pre-filled starting states for large buffers (closure is out of reach there)
fn prefilled_states(cb: usize, hb: usize) -> Vec<(String, Vec<Ev>)> {
    let mut v: Vec<(String, Vec<Ev>)> = vec![];
    for delta in 0..=3usize {
        if cb >= delta {
            v.push((format!("line = 'a' x (cb-{})", delta), rep_ev(ch('a'), cb - delta)));
        }
    }
    if cb >= 4 {
        // multi-byte characters straddling the end of the buffer
        for delta in 0..=3usize {
            let mut evs = rep_ev(ch('𝄞'), (cb - delta) / 4);
            evs.extend(rep_ev(ch('a'), (cb - delta) % 4));
            evs.push(k(Key::Left));
            v.push((format!("line = 4-byte chars up to cb-{}, cursor inside", delta), evs));
        }
        let mut evs = rep_ev(ch('é'), cb / 2);
        evs.extend(rep_ev(k(Key::Left), cb / 4));
        v.push(("line = 2-byte chars filling cb, cursor in the middle".to_string(), evs));
    }
    if hb >= 2 && cb >= 1 {
        // history full of one-character entries, navigation in progress
        let mut evs = vec![];
        let n = hb / 2;
        for i in 0..n.min(40) {
            evs.push(ch(if i % 2 == 0 { 'a' } else { 'é' }));
            if i % 3 == 2 {
                evs.push(ch('a'));
            }
            evs.push(k(Key::Lf));
        }
        let mut nav = evs.clone();
        nav.push(k(Key::Up));
        nav.push(k(Key::Up));
        v.push(("history of many short entries".to_string(), evs));
        v.push(("history of many short entries, navigating".to_string(), nav));
        // one entry filling history to capacity - delta
        for delta in 1..=3usize {
            if hb > delta && cb >= hb - delta {
                let mut e2 = rep_ev(ch('a'), hb - delta);
                e2.push(k(Key::Lf));
                e2.push(k(Key::Up));
                v.push((format!("single entry of hb-{} bytes recalled", delta), e2));
            }
        }
        // two entries, second evicts first on next push
        if cb >= 2 {
            let l1 = (hb / 2).min(cb).max(1);
            let mut e3 = rep_ev(ch('a'), l1.saturating_sub(1).max(1));
            e3.push(k(Key::Lf));
            e3.extend(rep_ev(ch('é'), (l1 / 2).max(1)));
            e3.push(k(Key::Lf));
            e3.push(k(Key::Up));
            e3.push(k(Key::Up));
            v.push(("two entries, at the oldest".to_string(), e3));
        }
    }
    v
}

pub fn c03(rep: &mut Report, tier: &str, seed: u64) {
    let quick = tier == "quick";
    let caps = caps(tier);
    let mon = Mon { invariants: true, ..Default::default() };
    // (1a) wide alphabet incl. API calls, small buffers, to closure
    let wide = vec![
        ch('a'),
        ch('é'),
        ch('𝄞'),
        ch(' '),
        ch('"'),
        ch('\\'),
        ch('-'),
        k(Key::Bs),
        k(Key::Left),
        k(Key::Right),
        k(Key::Up),
        k(Key::Down),
        k(Key::Tab),
        k(Key::Lf),
        k(Key::Cr),
        kh(Key::Lf, HMode::Write("o\n")),
        wr(""),
        wr("x"),
        wr("x\n"),
        Ev::SetPrompt("é> "),
        Ev::SetPrompt(""),
    ];
    let small: Vec<(usize, usize)> = if quick {
        vec![(0, 0), (0, 1), (1, 0), (1, 1), (1, 2), (2, 1), (2, 2), (2, 3), (3, 2)]
    } else {
        let mut v = vec![];
        for cb in 0..=3 {
            for hb in 0..=5 {
                v.push((cb, hb));
            }
        }
        v
    };
    for (cb, hb) in small {
        let mut cfg = base_cfg("C03", format!("no-panic wide alphabet cb={} hb={} cmd4", cb, hb), cb, hb, wide.clone(), mon.clone());
        cfg.poison = true;
        run_cmd4(rep, cfg, &caps, seed);
    }
    // (1b) reduced alphabet, larger grid
    let reduced = vec![ch('a'), ch('é'), ch(' '), k(Key::Bs), k(Key::Left), k(Key::Up), k(Key::Down), k(Key::Tab), k(Key::Lf)];
    let grid: Vec<(usize, usize)> = if quick {
        let mut v = vec![];
        for cb in [0usize, 1, 2, 4] {
            for hb in [0usize, 1, 2, 5] {
                v.push((cb, hb));
            }
        }
        v
    } else {
        let mut v = vec![];
        for cb in 0..=5 {
            for hb in 0..=7 {
                v.push((cb, hb));
            }
        }
        v
    };
    for (cb, hb) in grid {
        let mut cfg = base_cfg("C03", format!("no-panic reduced alphabet cb={} hb={} cmd4", cb, hb), cb, hb, reduced.clone(), mon.clone());
        cfg.poison = !quick || cb * hb <= 8;
        run_cmd4(rep, cfg, &caps, seed);
    }
    // (2) raw bytes through the whole Cli
    let raw_bytes: Vec<u8> = if quick {
        vec![0x08, 0x09, 0x0A, 0x0D, 0x1B, b'[', b'A', b'a', b' ', 0x80, 0xBF, 0xC3, 0xE0, 0xED, 0xF0, 0xF4, 0xFF]
    } else {
        crate::e2::boundary_bytes()
    };
    let mut raw_alpha: Vec<Ev> = raw_bytes.into_iter().map(|b| k(Key::Raw(b))).collect();
    raw_alpha.push(wr("x"));
    let raw_cfgs: Vec<(usize, usize)> = if quick { vec![(2, 3)] } else { vec![(2, 3), (3, 4)] };
    for (cb, hb) in raw_cfgs {
        let cfg = base_cfg("C03", format!("no-panic raw bytes cb={} hb={} cmd4", cb, hb), cb, hb, raw_alpha.clone(), mon.clone());
        run_cmd4(rep, cfg, &caps, seed);
    }
    // decoder closure over all byte values (shared with C02)
    let m = crate::e2::AccModel { bytes: (0u8..=255).collect(), prop: "C03", refine: false };
    run_model(rep, &m, &caps, seed);
    // (3) large buffers: depth-bounded from the initial and from pre-filled states
    let big: Vec<(usize, usize)> = vec![(8, 16), (16, 8), (32, 32), (64, 64), (64, 1), (1, 64), (0, 64), (64, 0), (5, 6), (7, 9)];
    let big_alpha = vec![
        ch('a'),
        ch('é'),
        ch('𝄞'),
        ch(' '),
        k(Key::Bs),
        k(Key::Left),
        k(Key::Right),
        k(Key::Up),
        k(Key::Down),
        k(Key::Tab),
        k(Key::Lf),
        wr("x"),
        Ev::SetPrompt("é> "),
    ];
    let mut dcaps = caps.clone();
    dcaps.max_depth = if quick { 5 } else { 7 };
    for (cb, hb) in big {
        let mut cfg = base_cfg("C03", format!("no-panic large buffers cb={} hb={} cmd4 (depth-bounded, pre-filled starts)", cb, hb), cb, hb, big_alpha.clone(), mon.clone());
        cfg.prefilled = prefilled_states(cb, hb);
        cfg.poison = quick;
        run_cmd4(rep, cfg, &dcaps, seed);
    }
    // (3b) every pair of buffer sizes: shallow search from the initial and pre-filled states, aggregated
    let sizes_cb: Vec<usize> = if quick { vec![0, 1, 2, 3, 4, 5, 6, 7, 8, 9, 15, 16, 17, 31, 32, 33, 63, 64] } else { (0..=64).collect() };
    let sizes_hb: Vec<usize> = if quick { vec![0, 1, 2, 3, 4, 7, 8, 9, 16, 63, 64] } else { (0..=64).collect() };
    if maybe_replay_active() {
        // individual grid members are replayable by name below
    }
    let mut agg = Outcome { name: format!("no-panic buffer-size grid {}x{} cmd4 (depth 3 from pre-filled starts)", sizes_cb.len(), sizes_hb.len()), exhaustive: false, ..Default::default() };
    let mut gcaps = caps.clone();
    gcaps.max_depth = 3;
    let grid_alpha = vec![ch('a'), ch('𝄞'), ch(' '), k(Key::Bs), k(Key::Left), k(Key::Up), k(Key::Down), k(Key::Tab), k(Key::Lf), wr("x")];
    for &cb in &sizes_cb {
        for &hb in &sizes_hb {
            let mut cfg = base_cfg("C03", format!("no-panic grid cb={} hb={} cmd4", cb, hb), cb, hb, grid_alpha.clone(), mon.clone());
            cfg.prefilled = prefilled_states(cb, hb);
            cfg.names = cmd4_names();
            let m = SessModel::<Cmd4>::new(cfg);
            if let Some(o) = maybe_replay(&m) {
                if !o.name.is_empty() {
                    rep.explorations.push(o);
                }
                continue;
            }
            let o = explore(&m, &gcaps, seed);
            agg.states += o.states;
            agg.transitions += o.transitions;
            agg.changing_transitions += o.changing_transitions;
            agg.depth_completed = agg.depth_completed.max(o.depth_completed);
            agg.wall_s += o.wall_s;
            agg.alphabet = o.alphabet;
            agg.stats.merge(&o.stats);
            if !o.viol_counts.is_empty() {
                // keep the member's own name so that the replay file points at a concrete configuration
                eprintln!("  {}", summary(&o));
                rep.explorations.push(o);
            } else if agg.samples.len() < 3 {
                agg.samples.extend(o.samples.into_iter().take(1));
            }
        }
    }
    agg.cap_hit = Some("depth cap 3 (by design)".into());
    if bfs_replay_inactive() {
        eprintln!("  {}", summary(&agg));
        rep.explorations.push(agg);
    }
    // (4) deprecated constructor
    let mut cfg = base_cfg("C03", "no-panic deprecated Cli::new cb=2 hb=3 cmd4".to_string(), 2, 3, reduced.clone(), mon.clone());
    cfg.deprecated_ctor = true;
    run_cmd4(rep, cfg, &caps, seed);
}

// ------------------------------------------------------------------ C13

pub fn c13(rep: &mut Report, tier: &str, seed: u64) {
    let quick = tier == "quick";
    let caps = caps(tier);
    // (i) closure of the real Writer's state, every transition executed end to end
    let pieces = crate::e_writer::all_pieces(if quick { 3 } else { 4 });
    let m = crate::e_writer::WriterModel { pieces: pieces.clone(), contexts: crate::e_writer::contexts() };
    let name = m.name();
    run_model(rep, &m, &caps, seed);
    rep.required.push((name.clone(), "write_executions".into()));
    rep.required.push((name, "handler_executions".into()));
    // (ii) every single call and a set of two-call scripts from every state of an editing session
    let mut events = vec![ch('a'), ch('é'), ch(' '), k(Key::Bs), k(Key::Left), k(Key::Right), k(Key::Up), k(Key::Lf)];
    let singles = crate::e_writer::all_pieces(2);
    for p in &singles {
        let sc = leak_script(vec![*p]);
        events.push(Ev::Write(sc));
        events.push(kh(Key::Lf, HMode::Script(sc)));
    }
    let two: Vec<(usize, usize)> = vec![(1, 0), (1, 5), (5, 0), (9, 13), (13, 1), (2, 2), (17, 0), (6, 21), (33, 8)];
    for (a, b) in two {
        if a < singles.len() && b < singles.len() {
            let sc = leak_script(vec![singles[a], singles[b]]);
            events.push(Ev::Write(sc));
            events.push(kh(Key::Lf, HMode::Script(sc)));
        }
    }
    let cfgs: Vec<(usize, usize)> = if quick { vec![(3, 4)] } else { vec![(3, 4), (4, 5)] };
    for (cb, hb) in cfgs {
        let cfg = base_cfg(
            "C13",
            format!("framing sessions cb={} hb={} raw: every output call x every editing state", cb, hb),
            cb,
            hb,
            events.clone(),
            Mon { framing: true, dispatch: true, term: true, invariants: true, ..Default::default() },
        );
        let name = cfg.label.clone();
        let mut cfg = cfg;
        // behaviour-refined key over a probe subset (the alphabet has ~1000 output events)
        cfg.refine = true;
        cfg.refine_probe = Some(vec![ch('a'), k(Key::Bs), k(Key::Left), k(Key::Right), k(Key::Up), k(Key::Lf), wr(""), wr("x")]);
        run_raw(rep, cfg, &caps, seed);
        rep.required.push((name, "framing_write".into()));
    }
    crate::checks_scale::c06_scale(rep, tier, seed, "C13");
}

// ------------------------------------------------------------------ C14

/// construction with a failing sink: both constructors must return the error, for every call position
fn c14_construction() -> crate::report::EnumOutcome {
    use crate::base::{Fail, Sink, VBuf};
    use embedded_cli::cli::{Cli, CliBuilder};
    let mut o = crate::report::EnumOutcome::default();
    o.name = "construction with a failing sink".into();
    o.rule = "CliBuilder::build and the deprecated Cli::new with sink call k failing (once / from then on), k over every call of a fault-free construction; non-trivial = the fault fired".into();
    for ctor in 0..2 {
        // count the calls of a fault-free construction
        let n_calls = {
            let s = crate::session::new_sess(4, 4, "é> ", false);
            s.cli.__verif_writer().calls
        };
        for k in 0..n_calls + 1 {
            for from in [false, true] {
                o.evaluations += 1;
                let mut sink = Sink::default();
                sink.fail = if from { Fail::From(k) } else { Fail::Once(k) };
                let r = std::panic::catch_unwind(std::panic::AssertUnwindSafe(|| {
                    if ctor == 0 {
                        CliBuilder::default().writer(sink).command_buffer(VBuf::new(4)).history_buffer(VBuf::new(4)).prompt("é> ").build().map(|_| ())
                    } else {
                        #[allow(deprecated)]
                        Cli::new(sink, VBuf::new(4), VBuf::new(4)).map(|_| ())
                    }
                }));
                let case = vec![format!("constructor {} fault at call {} ({})", ctor, k, if from { "from" } else { "once" })];
                match r {
                    Err(_) => o.viol("C14/panic-on-sink-error", format!("{:?} panicked", case), case),
                    Ok(res) => {
                        if k < n_calls {
                            o.distinct_nontrivial += 1;
                            if res.is_ok() {
                                o.viol("C14/sink-error-swallowed-in-construction", format!("{:?} returned Ok", case), case);
                            }
                        } else if res.is_err() {
                            o.viol("MACHINERY/fault-position", format!("{:?}: error without a fault", case), case);
                        }
                    }
                }
            }
        }
    }
    o.exhaustive = true;
    o.samples = vec![serde_json::json!("CliBuilder::build with the first write failing once")];
    o
}

pub fn c14(rep: &mut Report, tier: &str, seed: u64) {
    use crate::e5::FaultModel;
    if REPLAY.get().is_none() || crate::report::REPLAY_CASE.get().is_some() {
        rep.enumerations.push(c14_construction());
    }
    let quick = tier == "quick";
    let caps = caps(tier);
    let mon = Mon { dispatch: true, invariants: true, ..Default::default() };
    let events = vec![
        ch('a'),
        ch(' '),
        ch('"'),
        ch('-'),
        ch('h'),
        k(Key::Bs),
        k(Key::Left),
        k(Key::Up),
        k(Key::Tab),
        kh(Key::Lf, HMode::Write("o")),
        kh(Key::Lf, HMode::ParseErr),
        kh(Key::Lf, HMode::ParseErrKind(1)),
        kh(Key::Lf, HMode::ParseErrKind(2)),
        kh(Key::Lf, HMode::ParseErrKind(3)),
        kh(Key::Lf, HMode::ParseErrKind(4)),
        kh(Key::Lf, HMode::ParseErrKind(5)),
        kh(Key::Lf, HMode::Prompt("é> ")),
        wr("x"),
        Ev::SetPrompt("$ "),
    ];
    let events: Vec<Ev> = if quick { events.into_iter().filter(|e| *e != ch('"')).collect() } else { events };
    let cfgs: Vec<(usize, usize, usize)> = if quick { vec![(4, 2, 0)] } else { vec![(4, 3, 2), (5, 0, 0), (6, 0, 0)] };
    let mut caps = caps;
    if !quick {
        caps.max_wall_s = 600.0;
    }
    for (cb, hb, hb_grp) in cfgs {
        // plain enum
        let mut cfg = base_cfg("C14", format!("fault sessions cb={} hb={} plain enum", cb, hb), cb, hb, events.clone(), mon.clone());
        cfg.names = plain_a_names();
        let m = FaultModel { inner: SessModel::<PlainA<'static>>::new(cfg) };
        let name = m.name();
        run_model(rep, &m, &caps, seed);
        rep.required.push((name.clone(), "faults_injected".into()));
        rep.required.push((name, "fault_in_call_checked".into()));
        // group of two enums
        let mut cfg = base_cfg("C14", format!("fault sessions cb={} hb={} command group", cb, hb_grp), cb, hb_grp, events.clone(), mon.clone());
        cfg.names = grp_names();
        let m = FaultModel { inner: SessModel::<Grp<'static>>::new(cfg) };
        let name = m.name();
        run_model(rep, &m, &caps, seed);
        rep.required.push((name, "faults_injected".into()));
    }
}

// ------------------------------------------------------------------ C16

pub fn c16(rep: &mut Report, tier: &str, seed: u64) {
    use std::collections::HashSet;
    use std::sync::{Arc, Mutex};
    // the C01 / C05 / C06 explorations under this build's feature set, reference configured the same way
    c01(rep, tier, seed, "C16");
    c05(rep, tier, seed, "C16");
    c06(rep, tier, seed, "C16");
    // vacuity guards written for the default build do not all apply to reduced builds
    rep.required.retain(|(_, c)| {
        !(c == "dispatch_with_command" || c.starts_with("history_") || c == "editor_insert_inside")
            || (cfg!(feature = "history") && cfg!(feature = "autocomplete") && cfg!(feature = "help"))
    });
    // cross-build differential: on the alphabet that touches no optional facility, the labelled state
    // graph (projected on what every build has) must be identical in all eight builds
    let caps = caps(tier);
    let set = Arc::new(Mutex::new(HashSet::<u64>::new()));
    let alphabet = vec![
        ch('a'),
        ch('é'),
        ch(' '),
        ch('-'),
        k(Key::Bs),
        k(Key::Left),
        k(Key::Right),
        kh(Key::Lf, HMode::Write("o")),
        kh(Key::Cr, HMode::Silent),
        wr("x"),
        Ev::SetPrompt("é> "),
        Ev::SetPrompt("$ "),
    ];
    let (cb, hb) = if tier == "quick" { (3, 3) } else { (4, 4) };
    let mut cfg = base_cfg(
        "C16",
        format!("feature-independent graph cb={} hb={} cmd4", cb, hb),
        cb,
        hb,
        alphabet,
        feat(Mon { term: true, dispatch: true, editor: true, flush: true, invariants: true, ..Default::default() }),
    );
    cfg.digest = Some(set.clone());
    run_cmd4(rep, cfg, &caps, seed);
    let mut v: Vec<u64> = set.lock().unwrap().iter().copied().collect();
    v.sort();
    let mut d: u64 = 0xcbf29ce484222325;
    for x in &v {
        d = (d ^ x).wrapping_mul(0x100000001b3);
    }
    rep.notes.push(format!("graph-digest {} distinct-projected-transitions {}", d, v.len()));
}

/// tiny closure meant to be run under miri (supplementary UB detector; sequential)
pub fn c03_miri(rep: &mut Report, seed: u64) {
    let mon = Mon { invariants: true, ..Default::default() };
    let alpha = vec![ch('a'), ch('é'), ch(' '), ch('"'), k(Key::Bs), k(Key::Left), k(Key::Right), k(Key::Up), k(Key::Down), k(Key::Tab), k(Key::Lf), wr("x\n"), Ev::SetPrompt("é> ")];
    let mut caps = caps("quick");
    caps.max_states = 100_000;
    caps.max_wall_s = 540.0;
    let cfg = base_cfg("C03", "miri cb=2 hb=3 cmd4".to_string(), 2, 3, alpha, mon);
    run_cmd4(rep, cfg, &caps, seed);
}
