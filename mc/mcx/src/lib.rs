#![allow(dead_code)]
pub mod base;
pub mod bfs;
pub mod checks_e1;
pub mod checks_e2;
pub mod checks_e3;
pub mod cmds;
pub mod e1;
pub mod e2;
pub mod e3;
pub mod e4;
pub mod interp;
pub mod progs;
pub mod e5;
pub mod e_writer;
pub mod refs;
pub mod report;
pub mod session;
