//! Declaration data (decls.json written by mc/gen/gen.py) and the reference interpreter of a
//! declaration (DESIGN A.5): what a line must parse to, or which error it must be reported with.

use crate::progs::PErr;
use crate::refs::{classify, RArg};
use serde_json::Value;
use std::collections::HashMap;

#[derive(Clone, Debug, PartialEq, Eq)]
pub enum FKind {
    Positional,
    Option,
    Flag,
}

#[derive(Clone, Debug)]
pub enum DefaultD {
    /// `default_value = "text"`: parsed like an argument
    Value(String),
    /// `default_value_t [= expr]`: Debug rendering of the value
    Debug(String),
}

#[derive(Clone, Debug)]
pub struct FieldD {
    pub name: String,
    pub kind: FKind,
    pub ty: String,
    pub wrap_option: bool,
    pub default: Option<DefaultD>,
    pub short: Option<char>,
    pub long: Option<String>,
    pub value_name: String,
    pub doc: Option<String>,
}

impl FieldD {
    /// usage name as the library reports it for a missing argument
    pub fn usage_name(&self) -> String {
        let (l, r) = if self.wrap_option { ("[", "]") } else { ("<", ">") };
        match self.kind {
            FKind::Positional => format!("{}{}{}", l, self.value_name, r),
            FKind::Option => {
                let prefix = match (&self.long, self.short) {
                    (Some(n), _) => format!("--{}", n),
                    (None, Some(c)) => format!("-{}", c),
                    _ => String::new(),
                };
                format!("{} {}{}{}", prefix, l, self.value_name, r)
            }
            FKind::Flag => match (&self.long, self.short) {
                (Some(n), _) => format!("--{}", n),
                (None, Some(c)) => format!("-{}", c),
                _ => String::new(),
            },
        }
    }
    pub fn names(&self, item: &RArg) -> bool {
        match item {
            RArg::Long(n) => self.long.as_deref() == Some(n.as_str()),
            RArg::Short(c) => self.short == Some(*c),
            _ => false,
        }
    }
}

#[derive(Clone, Debug)]
pub struct SubD {
    pub field: Option<String>,
    pub enum_id: String,
    pub optional: bool,
}

#[derive(Clone, Debug)]
pub struct CmdD {
    pub ident: String,
    pub name: String,
    pub doc: Option<Vec<String>>,
    pub fields: Vec<FieldD>,
    pub sub: Option<SubD>,
    pub tuple: bool,
    pub tokens: Vec<String>,
    /// complete argument lines for commands with three or more fields (gen.py `long_lines_for`)
    pub long_lines: Vec<Vec<String>>,
}

#[derive(Clone, Debug)]
pub enum DeclD {
    Command { id: String, help_title: String, commands: Vec<CmdD> },
    Group { id: String, members: Vec<(String, String, bool)> },
    Names { id: String, names: Vec<String> },
    NameGroup { id: String, members: Vec<(Vec<String>, bool)> },
}

impl DeclD {
    pub fn id(&self) -> &str {
        match self {
            DeclD::Command { id, .. } | DeclD::Group { id, .. } | DeclD::Names { id, .. } | DeclD::NameGroup { id, .. } => id,
        }
    }
}

pub struct Decls {
    pub map: HashMap<String, DeclD>,
    pub order: Vec<String>,
}

fn s(v: &Value) -> String {
    v.as_str().unwrap_or("").to_string()
}

pub fn parse_decls(json: &str) -> Decls {
    let v: Value = serde_json::from_str(json).expect("decls.json");
    let mut map = HashMap::new();
    let mut order = vec![];
    for d in v.as_array().expect("array") {
        let id = s(&d["id"]);
        let decl = match d["kind"].as_str().unwrap() {
            "command" => {
                let mut commands = vec![];
                for c in d["commands"].as_array().unwrap() {
                    let mut fields = vec![];
                    for f in c["fields"].as_array().unwrap() {
                        fields.push(FieldD {
                            name: s(&f["name"]),
                            kind: match f["kind"].as_str().unwrap() {
                                "positional" => FKind::Positional,
                                "option" => FKind::Option,
                                _ => FKind::Flag,
                            },
                            ty: s(&f["ty"]),
                            wrap_option: f["wrap"] == "option",
                            default: if f["default"].is_null() {
                                None
                            } else if f["default"]["kind"] == "value" {
                                Some(DefaultD::Value(s(&f["default"]["text"])))
                            } else {
                                Some(DefaultD::Debug(s(&f["default"]["debug"])))
                            },
                            short: f["short"].as_str().and_then(|x| x.chars().next()),
                            long: f["long"].as_str().map(|x| x.to_string()),
                            value_name: s(&f["value_name"]),
                            doc: f["doc"].as_str().map(|x| x.to_string()),
                        });
                    }
                    commands.push(CmdD {
                        ident: s(&c["ident"]),
                        name: s(&c["name"]),
                        doc: c["doc"].as_array().map(|a| a.iter().map(s).collect()),
                        fields,
                        sub: if c["sub"].is_null() {
                            None
                        } else {
                            Some(SubD {
                                field: c["sub"]["field"].as_str().map(|x| x.to_string()),
                                enum_id: s(&c["sub"]["enum"]),
                                optional: c["sub"]["optional"].as_bool().unwrap_or(false),
                            })
                        },
                        tuple: c["tuple"].as_bool().unwrap_or(false),
                        tokens: c["tokens"].as_array().unwrap().iter().map(s).collect(),
                        long_lines: c
                            .get("long_lines")
                            .and_then(|l| l.as_array())
                            .map(|l| l.iter().map(|x| x.as_array().map(|a| a.iter().map(s).collect()).unwrap_or_default()).collect())
                            .unwrap_or_default(),
                    });
                }
                DeclD::Command { id: id.clone(), help_title: s(&d["help_title"]), commands }
            }
            "group" => DeclD::Group {
                id: id.clone(),
                members: d["members"].as_array().unwrap().iter().map(|m| (s(&m["ident"]), s(&m["enum"]), m["hidden"].as_bool().unwrap_or(false))).collect(),
            },
            "names" => DeclD::Names { id: id.clone(), names: d["names"].as_array().unwrap().iter().map(s).collect() },
            _ => DeclD::NameGroup {
                id: id.clone(),
                members: d["members"]
                    .as_array()
                    .unwrap()
                    .iter()
                    .map(|m| (m["names"].as_array().unwrap().iter().map(s).collect(), m["hidden"].as_bool().unwrap_or(false)))
                    .collect(),
            },
        };
        order.push(id.clone());
        map.insert(id, decl);
    }
    Decls { map, order }
}

#[derive(Clone, Debug, PartialEq, Eq)]
pub enum Expect {
    /// Debug rendering of the value handed to the handler
    Value(String),
    /// a catch-all RawCommand member: only the prefix of the rendering is predicted
    ValuePrefix(String),
    Err(PErr),
    /// the statement does not say (DESIGN 4 C09 "left open")
    Unspecified,
}

/// Debug rendering of a value of type `ty` parsed from `v` "as the canonical parser would"
pub fn parse_typed(ty: &str, v: &str) -> Option<String> {
    match ty {
        "u8" => v.parse::<u8>().ok().map(|x| format!("{:?}", x)),
        "i16" => v.parse::<i16>().ok().map(|x| format!("{:?}", x)),
        "f32" => v.parse::<f32>().ok().map(|x| format!("{:?}", x)),
        "i8" => v.parse::<i8>().ok().map(|x| format!("{:?}", x)),
        "u128" => v.parse::<u128>().ok().map(|x| format!("{:?}", x)),
        "f64" => v.parse::<f64>().ok().map(|x| format!("{:?}", x)),
        "usize" => v.parse::<usize>().ok().map(|x| format!("{:?}", x)),
        "i64" => v.parse::<i64>().ok().map(|x| format!("{:?}", x)),
        "char" => v.parse::<char>().ok().map(|x| format!("{:?}", x)),
        "bool" => v.parse::<bool>().ok().map(|x| format!("{:?}", x)),
        "&str" => Some(format!("{:?}", v)),
        _ => None,
    }
}

/// (expectation, whether an UnknownCommand comes from a nested sub-command level)
pub fn interpret(decls: &Decls, id: &str, tokens: &[String]) -> (Expect, bool) {
    if tokens.is_empty() {
        return (Expect::Err(PErr::UnknownCommand), false);
    }
    match decls.map.get(id) {
        Some(DeclD::Command { commands, .. }) => {
            let Some(cmd) = commands.iter().find(|c| c.name == tokens[0]) else {
                return (Expect::Err(PErr::UnknownCommand), false);
            };
            interpret_cmd(decls, cmd, &tokens[1..])
        }
        Some(DeclD::Names { names, .. }) => {
            let Some(i) = names.iter().position(|n| *n == tokens[0]) else {
                return (Expect::Err(PErr::UnknownCommand), false);
            };
            let cmd = CmdD { ident: format!("V{}", i), name: names[i].clone(), doc: None, fields: vec![], sub: None, tuple: false, tokens: vec![], long_lines: vec![] };
            interpret_cmd(decls, &cmd, &tokens[1..])
        }
        Some(DeclD::Group { members, .. }) => {
            let mut saw_nested_unknown = false;
            for (ident, en, _hidden) in members {
                if en == "RawCommand" {
                    if saw_nested_unknown {
                        return (Expect::Unspecified, false);
                    }
                    return (Expect::ValuePrefix(format!("{}(RawCommand {{ name: {:?}", ident, tokens[0])), false);
                }
                let (r, nested) = interpret(decls, en, tokens);
                match r {
                    Expect::Err(PErr::UnknownCommand) => {
                        if nested {
                            saw_nested_unknown = true;
                        }
                        continue;
                    }
                    Expect::Value(v) => {
                        return (if saw_nested_unknown { Expect::Unspecified } else { Expect::Value(format!("{}({})", ident, v)) }, false)
                    }
                    Expect::ValuePrefix(v) => return (Expect::ValuePrefix(format!("{}({}", ident, v)), false),
                    other => return (if saw_nested_unknown { Expect::Unspecified } else { other }, false),
                }
            }
            (Expect::Err(PErr::UnknownCommand), saw_nested_unknown)
        }
        Some(DeclD::NameGroup { members, .. }) => {
            for (mi, (names, _)) in members.iter().enumerate() {
                if let Some(i) = names.iter().position(|n| *n == tokens[0]) {
                    let cmd = CmdD { ident: format!("V{}", i), name: names[i].clone(), doc: None, fields: vec![], sub: None, tuple: false, tokens: vec![], long_lines: vec![] };
                    let (r, _) = interpret_cmd(decls, &cmd, &tokens[1..]);
                    let m = if mi == 0 { "A" } else { "B" };
                    return (
                        match r {
                            Expect::Value(v) => Expect::Value(format!("{}({})", m, v)),
                            o => o,
                        },
                        false,
                    );
                }
            }
            (Expect::Err(PErr::UnknownCommand), false)
        }
        None => (Expect::Unspecified, false),
    }
}

fn unexpected(item: &RArg) -> PErr {
    match item {
        RArg::Value(v) => PErr::UnexpectedArgument(v.clone()),
        RArg::Long(n) => PErr::UnexpectedLong(n.clone()),
        RArg::Short(c) => PErr::UnexpectedShort(*c),
        RArg::DoubleDash => PErr::Other("--".into()),
    }
}

fn interpret_cmd(decls: &Decls, cmd: &CmdD, args: &[String]) -> (Expect, bool) {
    // items with the index of the token they came from
    let mut items: Vec<(RArg, usize)> = vec![];
    {
        let mut values_only = false;
        for (ti, t) in args.iter().enumerate() {
            let one = if values_only { vec![RArg::Value(t.clone())] } else { classify(std::slice::from_ref(t)) };
            if !values_only && t == "--" {
                values_only = true;
            }
            for it in one {
                items.push((it, ti));
            }
        }
    }
    if cmd.fields.is_empty() && cmd.sub.is_none() {
        for (it, _) in &items {
            if *it != RArg::DoubleDash {
                return (Expect::Err(unexpected(it)), false);
            }
        }
        return (Expect::Value(cmd.ident.clone()), false);
    }
    let n = cmd.fields.len();
    let mut vals: Vec<Option<String>> = vec![None; n];
    let positional: Vec<usize> = (0..n).filter(|i| cmd.fields[*i].kind == FKind::Positional).collect();
    let mut k = 0usize;
    let mut pending: Option<usize> = None;
    let mut after_dd = false;
    let mut sub_result: Option<String> = None;
    for (it, ti) in &items {
        match it {
            RArg::DoubleDash => {
                after_dd = true;
            }
            RArg::Long(_) | RArg::Short(_) => {
                if pending.is_some() {
                    // an option where a value was expected: not specified
                    return (Expect::Unspecified, false);
                }
                match (0..n).find(|i| cmd.fields[*i].kind != FKind::Positional && cmd.fields[*i].names(it)) {
                    Some(i) => {
                        if vals[i].is_some() {
                            return (Expect::Unspecified, false); // repeated
                        }
                        if cmd.fields[i].kind == FKind::Flag {
                            vals[i] = Some("true".into());
                        } else {
                            pending = Some(i);
                        }
                    }
                    None => return (Expect::Err(unexpected(it)), false),
                }
            }
            RArg::Value(v) => {
                if let Some(i) = pending.take() {
                    match parse_typed(&cmd.fields[i].ty, v) {
                        Some(d) => vals[i] = Some(d),
                        None => return (Expect::Err(PErr::ParseValue(v.clone(), cmd.fields[i].ty.clone())), false),
                    }
                } else if let Some(sub) = &cmd.sub {
                    if after_dd {
                        return (Expect::Unspecified, false);
                    }
                    let (r, _) = interpret(decls, &sub.enum_id, &args[*ti..]);
                    match r {
                        Expect::Value(d) => {
                            sub_result = Some(d);
                            break;
                        }
                        Expect::Err(PErr::UnknownCommand) => return (Expect::Err(PErr::UnknownCommand), true),
                        other => return (other, false),
                    }
                } else if k < positional.len() {
                    let i = positional[k];
                    match parse_typed(&cmd.fields[i].ty, v) {
                        Some(d) => vals[i] = Some(d),
                        None => return (Expect::Err(PErr::ParseValue(v.clone(), cmd.fields[i].ty.clone())), false),
                    }
                    k += 1;
                } else {
                    return (Expect::Err(PErr::UnexpectedArgument(v.clone())), false);
                }
            }
        }
    }
    if pending.is_some() {
        return (Expect::Unspecified, false);
    }
    let mut rendered: Vec<String> = vec![];
    for (i, f) in cmd.fields.iter().enumerate() {
        let r = match (&vals[i], f.wrap_option) {
            (Some(d), true) => format!("Some({})", d),
            (Some(d), false) => d.clone(),
            (None, true) => "None".to_string(),
            (None, false) => match (&f.default, &f.kind) {
                (_, FKind::Flag) => "false".to_string(),
                (Some(DefaultD::Value(t)), _) => match parse_typed(&f.ty, t) {
                    Some(d) => d,
                    None => return (Expect::Unspecified, false),
                },
                (Some(DefaultD::Debug(d)), _) => d.clone(),
                (None, _) => return (Expect::Err(PErr::MissingRequired(f.usage_name())), false),
            },
        };
        rendered.push(format!("{}: {}", f.name, r));
    }
    if let Some(sub) = &cmd.sub {
        let r = match (sub_result, sub.optional) {
            (Some(d), true) => format!("Some({})", d),
            (Some(d), false) => d,
            (None, true) => "None".to_string(),
            (None, false) => return (Expect::Err(PErr::MissingRequired("<COMMAND>".into())), false),
        };
        if cmd.tuple {
            return (Expect::Value(format!("{}({})", cmd.ident, r)), false);
        }
        rendered.push(format!("{}: {}", sub.field.clone().unwrap_or_default(), r));
    }
    (Expect::Value(format!("{} {{ {} }}", cmd.ident, rendered.join(", "))), false)
}

/// every command reachable at the top level of a program, with the enum it belongs to
pub fn top_commands<'a>(decls: &'a Decls, id: &str) -> Vec<&'a CmdD> {
    match decls.map.get(id) {
        Some(DeclD::Command { commands, .. }) => commands.iter().collect(),
        Some(DeclD::Group { members, .. }) => {
            let mut v = vec![];
            for (_, en, _) in members {
                if en != "RawCommand" {
                    v.extend(top_commands(decls, en));
                }
            }
            v
        }
        _ => vec![],
    }
}
