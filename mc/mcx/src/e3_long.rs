//! E3 (continued): enumerations that push the boundary-relevant part of the input to *every offset* of long
//! lines / long token lists. The complete enumerations of e3.rs stop at 9-11 symbols; a word-at-a-time scan, a
//! chunked copy or a narrowed counter only misbehaves at byte offsets 7/8, 15/16, 31/32, ... or for tokens
//! longer than a machine word or two. Here every short string over the full alphabet is embedded at every
//! offset 0..=40 of several kinds of context.

use crate::e3::*;
use crate::refs::*;
use crate::report::EnumOutcome;
use rayon::prelude::*;
use serde_json::json;
use std::time::Instant;

fn c07_prefixes(max_p: usize) -> Vec<String> {
    let mut v = vec![];
    for p in 0..=max_p {
        v.push("a".repeat(p));
        v.push(format!("\"{}", "a".repeat(p)));
        if p % 2 == 0 {
            v.push("a ".repeat(p / 2));
            v.push("é".repeat(p / 2));
            v.push(format!("a \"{}", "é".repeat(p / 2)));
        }
    }
    v.sort();
    v.dedup();
    v
}

const C07_SUFFIXES: [&str; 5] = ["", "a", " a", "\" a", "aaaaaaaaaaaaaaaaa \"b b\" aaaaaaaaaaaaaaaaaaaaaaaaaaaaaaaaa"];

/// every string of <= `mid_len` symbols over the C07 alphabet, at every offset of several contexts
pub fn c07_long(mid_len: u32, max_p: usize) -> EnumOutcome {
    let t0 = Instant::now();
    let prefixes = c07_prefixes(max_p);
    let nmid = count_strings(C07_SIGMA.len() as u64, mid_len);
    let total = prefixes.len() as u64 * nmid * C07_SUFFIXES.len() as u64;
    let mut out = (0..prefixes.len())
        .into_par_iter()
        .map(|pi| {
            let mut o = EnumOutcome::default();
            let mut mid = String::new();
            for mi in 0..nmid {
                nth_string(&C07_SIGMA, mi, &mut mid);
                for suf in C07_SUFFIXES {
                    let line = format!("{}{}{}", prefixes[pi], mid, suf);
                    o.evaluations += 1;
                    let adm = tokens_adm(&line);
                    if line.len() >= 16 {
                        o.distinct_nontrivial += 1;
                    }
                    if adm.iter().any(|t| t.iter().any(|x| x.len() >= 16)) {
                        o.stats.hit("token_of_16_bytes_or_more");
                    }
                    if adm.iter().any(|t| t.len() >= 5) {
                        o.stats.hit("five_or_more_tokens");
                    }
                    match real_tokens(&line) {
                        Ok(got) => {
                            if !adm.contains(&got) {
                                o.viol("C07/long-line", format!("line {:?}: Tokens::new gives {:?}, rules give {:?}", line, got, adm), vec![line.clone()]);
                            }
                        }
                        Err(m) => o.viol("C07/tokeniser-failure", format!("line {:?}: {}", line, m), vec![line.clone()]),
                    }
                }
            }
            o
        })
        .reduce(EnumOutcome::default, |mut a, b| {
            a.merge(b);
            a
        });
    out.name = format!("tokeniser, long lines: every string of <= {} symbols at every offset 0..={} of {} contexts x {} continuations", mid_len, max_p, prefixes.len(), C07_SUFFIXES.len());
    out.rule = "prefix (a^p | \"a^p | (a )^p/2 | é^p/2 | a \"é^p/2) . every string over {a, space, quote, backslash, dash, é} . suffix; non-trivial = line of 16 bytes or more".into();
    out.expected = Some(total);
    out.exhaustive = out.evaluations == total;
    out.samples = vec![json!({"line": format!("{}\\\"{}", "\"aaaaaa", "\" a"), "tokens": real_tokens("\"aaaaaa\\\"\" a").unwrap_or_default()})];
    out.wall_s = t0.elapsed().as_secs_f64();
    out
}

/// round trip of long strings: every list of <= 2 strings built from a body of every length 0..=max_len with
/// a special character (quote, backslash, blank, é) at every position
pub fn c07_roundtrip_long(max_len: usize) -> EnumOutcome {
    let t0 = Instant::now();
    let mut items: Vec<String> = vec![];
    for n in 0..=max_len {
        items.push("a".repeat(n));
        for sp in ["\"", "\\", " ", "é", "\\\""] {
            for pos in 0..=n {
                let mut s = "a".repeat(pos);
                s.push_str(sp);
                s.push_str(&"a".repeat(n - pos));
                items.push(s);
            }
        }
    }
    items.sort();
    items.dedup();
    let fixed = ["", "b", "b b", "\"", "bbbbbbbbbbbbbbbbbbbbbbbbbbbbbbbbb"];
    let total = (items.len() * (1 + 2 * fixed.len())) as u64;
    let mut out = items
        .par_iter()
        .map(|it| {
            let mut o = EnumOutcome::default();
            let mut lists: Vec<Vec<String>> = vec![vec![it.clone()]];
            for f in fixed {
                lists.push(vec![it.clone(), f.to_string()]);
                lists.push(vec![f.to_string(), it.clone()]);
            }
            for l in lists {
                o.evaluations += 1;
                o.distinct_nontrivial += 1;
                let line = render_list(&l);
                match real_tokens(&line) {
                    Ok(got) => {
                        if got != l {
                            o.viol("C07/round-trip", format!("list {:?} rendered as {:?} tokenises to {:?}", l, line, got), vec![line.clone()]);
                        }
                    }
                    Err(m) => o.viol("C07/tokeniser-failure", format!("line {:?}: {}", line, m), vec![line.clone()]),
                }
            }
            o
        })
        .reduce(EnumOutcome::default, |mut a, b| {
            a.merge(b);
            a
        });
    out.name = format!("tokeniser, round trip of long strings: a^i . special . a^j for every i + j <= {}, alone and next to 5 fixed strings", max_len);
    out.rule = "every such string, quoted with \\\" and \\\\ escapes, alone / before / after each fixed string, must tokenise back to exactly the list".into();
    out.expected = Some(total);
    out.exhaustive = out.evaluations == total;
    out.samples = vec![json!({"list": ["aaaaaaa\"a", "b b"]})];
    out.wall_s = t0.elapsed().as_secs_f64();
    out
}

fn c08_long_tokens() -> Vec<String> {
    let mut v = vec![];
    let cyc = ['a', 'é', '中', '𝄞'];
    for d in 0..=5usize {
        for p in [0usize, 1, 2, 3, 4, 5, 7, 8, 9, 15, 16, 17, 31, 32, 33] {
            v.push(format!("{}{}", "-".repeat(d), "a".repeat(p)));
            v.push(format!("{}{}", "-".repeat(d), (0..p).map(|i| cyc[i % 4]).collect::<String>()));
            if p > 0 {
                v.push(format!("{}{}-", "-".repeat(d), "a".repeat(p)));
            }
        }
    }
    v.sort();
    v.dedup();
    v
}

/// long tokens (many dashes, long names, long clusters of mixed widths) at late positions of long lists
pub fn c08_long() -> EnumOutcome {
    let t0 = Instant::now();
    let toks = c08_long_tokens();
    let fillers = ["v", "-x", "--long", "", "-"];
    let ks = [0usize, 1, 3, 4, 5, 8, 9];
    let total = (ks.len() * toks.len() * 2 * (toks.len() + 1)) as u64;
    let mut out = (0..toks.len())
        .into_par_iter()
        .map(|ti| {
            let mut o = EnumOutcome::default();
            for &kk in &ks {
                for dd in [false, true] {
                    for t2 in std::iter::once(None).chain(toks.iter().map(Some)) {
                        let mut list: Vec<String> = (0..kk).map(|i| fillers[i % fillers.len()].to_string()).collect();
                        list.push(toks[ti].clone());
                        if dd {
                            list.push("--".to_string());
                        }
                        if let Some(t) = t2 {
                            list.push(t.clone());
                        }
                        o.evaluations += 1;
                        let want = classify(&list);
                        if list.len() >= 4 {
                            o.distinct_nontrivial += 1;
                        }
                        match real_classify(&list) {
                            Ok(got) => {
                                if got != want {
                                    o.viol("C08/long-list", format!("tokens {:?}: args() gives {:?}, rules give {:?}", list, got, want), list.clone());
                                } else if !rejoin_ok(&list, &got) {
                                    o.viol("C08/rejoin", format!("tokens {:?}: items {:?} do not spell the tokens", list, got), list.clone());
                                }
                            }
                            Err(m) => o.viol("C08/classifier-failure", format!("tokens {:?}: {}", list, m), list.clone()),
                        }
                    }
                }
            }
            o
        })
        .reduce(EnumOutcome::default, |mut a, b| {
            a.merge(b);
            a
        });
    out.name = format!("classifier, long lists: {} long tokens (0-5 dashes, names and mixed-width clusters of up to 33 characters) after 0-9 other tokens, with and without `--`, followed by each other", toks.len());
    out.rule = "fillers . t1 . [--] . [t2] for every t1, t2 of the long-token set; non-trivial = list of 4 or more tokens".into();
    out.expected = Some(total);
    out.exhaustive = out.evaluations == total;
    out.samples = vec![json!({"tokens": ["v", "-x", "--long", "----", "--", "-aé中𝄞aé中𝄞a"]})];
    out.wall_s = t0.elapsed().as_secs_f64();
    out
}

/// lines / lists of 250..300 tokens with every short string (resp. every long token) in the middle
pub fn c07_many_tokens(mid_len: u32) -> EnumOutcome {
    let t0 = Instant::now();
    let nmid = count_strings(C07_SIGMA.len() as u64, mid_len);
    let ks = [127usize, 128, 254, 255, 256, 257, 300];
    let total = ks.len() as u64 * nmid * 6;
    let mut out = (0..ks.len())
        .into_par_iter()
        .map(|ki| {
            let mut o = EnumOutcome::default();
            let mut mid = String::new();
            let kk = ks[ki];
            for mi in 0..nmid {
                nth_string(&C07_SIGMA, mi, &mut mid);
                // units that are dropped / rewritten in place differently: plain separators, double blanks (one
                // byte dropped per token), quoted tokens (two), escapes (three), and a long run of leading blanks
                for (tail, unit, lead) in [(0usize, "a ", 0usize), (3, "a ", 0), (1, "a  ", 0), (1, "\"a\" ", 0), (1, "\"\\\"\" ", 0), (1, "é ", kk)] {
                    let mut line = " ".repeat(lead);
                    line.push_str(&unit.repeat(kk));
                    line.push_str(&mid);
                    line.push_str(&" é".repeat(tail));
                    o.evaluations += 1;
                    o.distinct_nontrivial += 1;
                    let adm = tokens_adm(&line);
                    match real_tokens(&line) {
                        Ok(got) => {
                            if !adm.contains(&got) {
                                o.viol("C07/many-tokens", format!("line of {} tokens + {:?}: Tokens::new gives {} tokens ending {:?}, rules give {:?}", kk, mid, got.len(), &got[got.len().saturating_sub(4)..], adm.iter().map(|a| a.len()).collect::<Vec<_>>()), vec![line.clone()]);
                            }
                        }
                        Err(m) => o.viol("C07/tokeniser-failure", format!("line {:?}: {}", line, m), vec![line.clone()]),
                    }
                }
            }
            o
        })
        .reduce(EnumOutcome::default, |mut a, b| {
            a.merge(b);
            a
        });
    out.name = format!("tokeniser, many tokens: unit^k . every string of <= {} symbols . tail, unit in (a | a+2 blanks | quoted a | quoted escaped quote | k leading blanks + é), k in {:?}", mid_len, ks);
    out.rule = "lines of 127..300 tokens followed by every short string over the C07 alphabet".into();
    out.expected = Some(total);
    out.exhaustive = out.evaluations == total;
    out.samples = vec![json!({"line": "a a a ... (256 times) \"a"})];
    out.wall_s = t0.elapsed().as_secs_f64();
    out
}

pub fn c08_many_tokens() -> EnumOutcome {
    let t0 = Instant::now();
    let toks = c08_long_tokens();
    let ks = [127usize, 128, 254, 255, 256, 257, 300];
    let fillers = ["v", "-x", "--long", "", "-", "-aé"];
    let total = (ks.len() * toks.len() * 2) as u64;
    let mut out = (0..toks.len())
        .into_par_iter()
        .map(|ti| {
            let mut o = EnumOutcome::default();
            for &kk in &ks {
                for dd in [false, true] {
                    let mut list: Vec<String> = (0..kk).map(|i| fillers[i % fillers.len()].to_string()).collect();
                    if dd {
                        list.insert(kk / 2, "--".to_string());
                    }
                    list.push(toks[ti].clone());
                    list.push("v".into());
                    o.evaluations += 1;
                    o.distinct_nontrivial += 1;
                    let want = classify(&list);
                    match real_classify(&list) {
                        Ok(got) => {
                            if got != want {
                                let at = got.iter().zip(want.iter()).position(|(a, b)| a != b).unwrap_or(got.len().min(want.len()));
                                o.viol("C08/many-tokens", format!("list of {} tokens (-- in the middle: {}) ending in {:?}: item {} is {:?}, rules give {:?} ({} vs {} items)", list.len(), dd, toks[ti], at, got.get(at), want.get(at), got.len(), want.len()), vec![format!("{} fillers", kk), toks[ti].clone()]);
                            } else if !rejoin_ok(&list, &got) {
                                o.viol("C08/rejoin", format!("list of {} tokens ending in {:?}: items do not spell the tokens", list.len(), toks[ti]), vec![format!("{} fillers", kk), toks[ti].clone()]);
                            }
                        }
                        Err(m) => o.viol("C08/classifier-failure", format!("list of {} tokens: {}", list.len(), m), vec![format!("{} fillers", kk), toks[ti].clone()]),
                    }
                }
            }
            o
        })
        .reduce(EnumOutcome::default, |mut a, b| {
            a.merge(b);
            a
        });
    out.name = format!("classifier, many tokens: k fillers (with and without `--` in the middle) . every long token . v, k in {:?}", ks);
    out.rule = "lists of 129..303 tokens".into();
    out.expected = Some(total);
    out.exhaustive = out.evaluations == total;
    out.samples = vec![json!({"tokens": "v -x --long '' - -aé ... (256 fillers) ----a v"})];
    out.wall_s = t0.elapsed().as_secs_f64();
    out
}

// ------------------------------------------------------------------ C09: value conversion

const C09_VALUE_SIGMA: [&str; 14] = ["0", "1", "2", "5", "9", "+", "-", ".", "e", "x", "_", " ", "a", "é"];

/// strings of special interest for each family of types (boundaries of every integer width, float and bool
/// spellings) in addition to the complete short-string enumeration
fn c09_special_values() -> Vec<String> {
    let mut v: Vec<String> = vec![];
    for bits in [8u32, 16, 32, 64, 128] {
        let umax = if bits == 128 { u128::MAX } else { (1u128 << bits) - 1 };
        let imax = (1u128 << (bits - 1)) - 1;
        for x in [umax - 1, umax, imax - 1, imax, imax + 1] {
            v.push(format!("{}", x));
            v.push(format!("+{}", x));
            v.push(format!("-{}", x));
            v.push(format!("0{}", x));
        }
        if bits < 128 {
            v.push(format!("{}", umax + 1));
            v.push(format!("-{}", imax + 2));
        }
    }
    v.push("340282366920938463463374607431768211456".into());
    v.push("-170141183460469231731687303715884105729".into());
    for s in [
        "true", "false", "TRUE", "True", "yes", "no", "on", "off", "t", "f", "inf", "-inf", "+inf", "infinity", "nan", "NaN", "-nan", "1e3", "1E3", "1e-3", "1e400", "1e-400", ".5", "5.", "0x10", "0b1", "0o7", "1_000", "１", "٣",
        "3.4028235e38", "3.4028236e38", "1.7976931348623157e308", "1.7976931348623159e308", "-0", "-0.0", "+0", "00", "0.1", "1.0000001", "16777217",
        "", " ", " 7", "7 ", "\t7", "a", "ab", "é", "éa", "中", "𝄞", "𝄞𝄞", "\u{301}", "a\u{301}", "'a'", "\\n",
    ] {
        v.push(s.to_string());
    }
    // decimals just above / below the midpoint of two adjacent f32 values: parsing through f64 first rounds
    // them to the midpoint itself and then ties-to-even the wrong way (double rounding)
    for x in [1.0f32, 2.0, 0.1, 3.0e10, 1.0e-10, 16777216.0, 0.3] {
        for y in [x, f32::from_bits(x.to_bits() + 1)] {
            let up = f32::from_bits(y.to_bits() + 1);
            let mid = (y as f64 + up as f64) / 2.0; // exact in f64
            let exact = format!("{:.80}", mid);
            let exact = exact.trim_end_matches('0').to_string();
            v.push(format!("{}1", exact));
            v.push(exact.clone());
            // slightly below: drop the last digit and append 9s is not exact; use exact digits minus a tail instead
            if let Some(last) = exact.chars().last() {
                if let Some(d) = last.to_digit(10) {
                    if d > 0 {
                        let mut below = exact[..exact.len() - 1].to_string();
                        below.push(std::char::from_digit(d - 1, 10).unwrap());
                        below.push_str("9999999999");
                        v.push(below);
                    }
                }
            }
        }
    }
    v.sort();
    v.dedup();
    v
}

fn conv_case<T>(o: &mut EnumOutcome, ty: &'static str, s: &str)
where
    T: for<'a> embedded_cli::arguments::FromArgument<'a> + std::str::FromStr + std::fmt::Debug,
{
    o.evaluations += 1;
    let want: Option<String> = s.parse::<T>().ok().map(|v| format!("{:?}", v));
    if want.is_some() {
        o.distinct_nontrivial += 1;
        o.stats.hit("accepted_values");
    } else {
        o.stats.hit("rejected_values");
    }
    let r = std::panic::catch_unwind(|| match <T as embedded_cli::arguments::FromArgument>::from_arg(s) {
        Ok(v) => Ok(format!("{:?}", v)),
        Err(e) => Err((e.value.to_string(), e.expected.to_string())),
    });
    let case = vec![ty.to_string(), s.to_string()];
    match r {
        Err(_) => o.viol("C09/panic", format!("{}::from_arg({:?}) panicked", ty, s), case),
        Ok(Ok(g)) => {
            if want.as_ref() != Some(&g) {
                o.viol("C09/value-conversion", format!("{}::from_arg({:?}) gives {}, the type's own parser gives {:?}", ty, s, g, want), case);
            }
        }
        Ok(Err((val, exp))) => {
            if let Some(w) = want {
                o.viol("C09/value-conversion", format!("{}::from_arg({:?}) is rejected, the type's own parser gives {}", ty, s, w), case);
            } else if val != s || exp != ty {
                o.viol("C09/value-error-payload", format!("{}::from_arg({:?}) reports value {:?} expected {:?}", ty, s, val, exp), case);
            }
        }
    }
}

/// every supported field type x every string of <= max_len symbols over a numeric-looking alphabet plus the
/// boundary values of every width: `FromArgument::from_arg` must agree with the type's `FromStr`
pub fn c09_values(max_len: u32) -> EnumOutcome {
    let t0 = Instant::now();
    let n = count_strings(C09_VALUE_SIGMA.len() as u64, max_len);
    let special = c09_special_values();
    let mut strings: Vec<String> = vec![];
    let mut tmp = String::new();
    for i in 0..n {
        nth_string(&C09_VALUE_SIGMA, i, &mut tmp);
        strings.push(tmp.clone());
    }
    strings.extend(special);
    let mut out = strings
        .par_chunks(512)
        .map(|chunk| {
            let mut o = EnumOutcome::default();
            for s in chunk {
                conv_case::<u8>(&mut o, "u8", s);
                conv_case::<i8>(&mut o, "i8", s);
                conv_case::<u16>(&mut o, "u16", s);
                conv_case::<i16>(&mut o, "i16", s);
                conv_case::<u32>(&mut o, "u32", s);
                conv_case::<i32>(&mut o, "i32", s);
                conv_case::<u64>(&mut o, "u64", s);
                conv_case::<i64>(&mut o, "i64", s);
                conv_case::<u128>(&mut o, "u128", s);
                conv_case::<i128>(&mut o, "i128", s);
                conv_case::<usize>(&mut o, "usize", s);
                conv_case::<isize>(&mut o, "isize", s);
                conv_case::<f32>(&mut o, "f32", s);
                conv_case::<f64>(&mut o, "f64", s);
                conv_case::<char>(&mut o, "char", s);
                conv_case::<bool>(&mut o, "bool", s);
                // &str: handed through unchanged
                o.evaluations += 1;
                match <&str as embedded_cli::arguments::FromArgument>::from_arg(s) {
                    Ok(v) if v == s.as_str() => {}
                    other => o.viol("C09/value-conversion", format!("<&str>::from_arg({:?}) gives {:?}", s, other.map_err(|e| e.expected)), vec!["&str".into(), s.clone()]),
                }
            }
            o
        })
        .reduce(EnumOutcome::default, |mut a, b| {
            a.merge(b);
            a
        });
    let total = strings.len() as u64 * 17;
    out.name = format!("value conversion: 17 field types x every string of <= {} symbols over {:?} and {} boundary spellings", max_len, C09_VALUE_SIGMA, strings.len() as u64 - n);
    out.rule = "FromArgument::from_arg against the type's own FromStr (Debug rendering; rejected values must be reported with the value and the type name); non-trivial = the type's parser accepts the string".into();
    out.expected = Some(total);
    out.exhaustive = out.evaluations == total;
    out.samples = vec![json!({"type": "i8", "value": "-128"}), json!({"type": "f32", "value": "1e3"})];
    out.wall_s = t0.elapsed().as_secs_f64();
    out
}
